(** * TokenTx: transaction / history level statements of C18 that Props/C18.v leaves open.

    PART 0 (executed traces).
    - [Trace w stack ex w']: fuel-free reading of [Exec.run]: from world [w] the pending stack
      [stack] executes, depth first, exactly the messages [ex] (each tagged with its sender), every one
      of them successfully, and ends in [w']; [run_Trace]: every successful [run] is such a trace and
      the returned trace is [tr ++ ex];
    - [Trace_split]: every executed message of a trace executed successfully in an intermediate world
      in which any (world, stack) invariant of [step_msg] holds, and the rest of the trace is the
      execution of what it emitted followed by the stack that was pending.

    PART A (the minter stays the hub).
    - [MinterHub a w]: every instantiated token of [w] names [a] as its hub and has minter
      [(a, no cap)];  [minter_env_op a o]: the envelope on one operation of a history (token
      instantiations name [a]; [a] never SIGNS a root cw20 UpdateMinter);
    - [bsei_execute_minter]: no bSei message changes the minter; [stsei_execute_minter],
      [stsei_updminter_auth]: the only stSei message that does is UpdateMinter, and it requires the
      current minter as sender;
    - (Proofs/TokenTxNoUpd.v) no handler of any contract emits an UpdateMinter;
    - [step_msg_minterhub], [tx_minterhub], [step_minterhub], [minter_hub_history],
      [minter_hub_reachable]: [MinterHub a] holds in every world of every history inside the envelope;
    - [minter_change_witness_root], [minter_change_witness_inst]: both envelope clauses are needed;
    - [mint_sender_is_hub_tx], [mint_sender_is_hub_history]: every Mint message executed anywhere in a
      successful transaction was sent by [a].

    PART B (burn => the hub synchronises in the same transaction).
    - [TokHub w]: the instantiated tokens name [A_hub] as their hub ([step_msg_TokHub],
      [TokHub_history]: stable; holds along every history whose token instantiations name [A_hub]);
    - [stsei_burn_emits], [stsei_burnfrom_emits], [bsei_burnfrom_emits]: the three handlers emit the
      hub's CheckSlashing as their last message; [bsei_burn_emits]: bSei plain Burn emits only the
      reward mirror message (NO CheckSlashing);
    - [SyncLeg wa tok wb]: the CheckSlashing message sent by [tok] executed from [wa] to [wb], and it
      is exactly [Hub.slashing] on an unpaused hub;
    - [trace_stsei_burn], [trace_bsei_burnfrom], [tx_stsei_burn_syncs], [tx_bsei_burnfrom_syncs]: in
      every successful transaction every executed stSei Burn / BurnFrom is immediately followed by
      the executed CheckSlashing leg, every executed bSei BurnFrom by its reward DecreaseBalance leg
      (which emits nothing) and then the CheckSlashing leg;
    - [tokhub_needed_witness]: with a token naming another address the burn succeeds WITHOUT any hub
      synchronisation (so [TokHub] is a necessary hypothesis).
    Non-vacuity: section "examples" at the end. *)
From Krp Require Import Tactics Prelude Fixed FMap Types Env Registry Cw20 Reward Dispatcher Hub Exec
     ExecP Hist Inv HubFrame HubAdmin Cw20P MirrorWire SlashP TokenTxNoUpd ExitWorld.
Open Scope N_scope.

(** * PART 0 — executed traces *)

Inductive Trace : world -> list (addr * cmsg) -> list (addr * cmsg) -> world -> Prop :=
| Trace_nil w : Trace w [] [] w
| Trace_cons w s m rest w1 out ex w' :
    step_msg w s m = Some (w1, out) -> Trace w1 (out ++ rest) ex w' ->
    Trace w ((s, m) :: rest) ((s, m) :: ex) w'.

Lemma run_Trace : forall fuel w stack tr w' tr',
  run fuel w stack tr = Some (w', tr') -> exists ex, tr' = tr ++ ex /\ Trace w stack ex w'.
Proof.
  induction fuel as [|f IH]; intros w stack tr w' tr' H.
  - destruct stack as [|[s m] rest]; cbn [run] in H; [|discriminate].
    inversion H; subst. exists []. rewrite app_nil_r. split; [reflexivity|constructor].
  - destruct stack as [|[s m] rest]; cbn [run] in H.
    + inversion H; subst. exists []. rewrite app_nil_r. split; [reflexivity|constructor].
    + bind_inv H as r Hr. destruct r as [w1 out]. cbn [fst snd] in H.
      apply IH in H. destruct H as (ex & -> & HT).
      exists ((s, m) :: ex). split; [rewrite <- app_assoc; reflexivity|].
      econstructor; eauto.
Qed.

Lemma Trace_split (J : world -> list (addr * cmsg) -> Prop) :
  (forall w s m rest w' out,
      J w ((s, m) :: rest) -> step_msg w s m = Some (w', out) -> J w' (out ++ rest)) ->
  forall w stack ex w', Trace w stack ex w' -> J w stack ->
  forall pre s m post, ex = pre ++ (s, m) :: post ->
  exists wa wb out rest,
    J wa ((s, m) :: rest) /\ step_msg wa s m = Some (wb, out) /\ Trace wb (out ++ rest) post w'.
Proof.
  intros Hstep w stack ex w' HT.
  induction HT as [w | w s0 m0 rest w1 out ex w' Hs HT IH]; intros HJ pre s m post E.
  - destruct pre; discriminate.
  - destruct pre as [|p pre]; cbn [app] in E.
    + inversion E; subst. exists w, w1, out, rest. auto.
    + inversion E; subst. eapply IH; [eapply Hstep; eauto | reflexivity].
Qed.

(** every message of the trace of a successful run executed successfully *)
Lemma run_trace_executed fuel w stack w' tr s m :
  run fuel w stack [] = Some (w', tr) -> In (s, m) tr ->
  exists wa wb out, step_msg wa s m = Some (wb, out).
Proof.
  intros H Hin. apply run_Trace in H. destruct H as (ex & -> & HT). cbn [app] in Hin.
  apply in_split in Hin. destruct Hin as (pre & post & E).
  destruct (Trace_split (fun _ _ => True) ltac:(auto) _ _ _ _ HT I _ _ _ _ E)
    as (wa & wb & out & rest & _ & Hs & _).
  eauto.
Qed.

(** a wasm message is never an environment-only step *)
Lemma step_msg_wasm_inv w s to wm f w' out :
  step_msg w s (MWasm to wm f) = Some (w', out) ->
  exists e1 o, send_coins (w_env w) s to f = Some e1 /\
               call_effect (set_env w e1) s to wm f w' o /\ out = map (fun x => (to, x)) o.
Proof.
  intros H. apply step_msg_inv in H.
  destruct H as [e' _ _ Hno | to' wm' f' e1 o E Hsend Hc Hout].
  - exfalso. eapply Hno. reflexivity.
  - inversion E; subst. eauto.
Qed.

(** * PART A — the minter stays the hub *)

Definition tok_ok (a : addr) (t : token) : Prop := tk_hub t = a /\ tk_minter t = Some (a, None).

Definition MinterHub (a : addr) (w : world) : Prop :=
  (forall t, w_bsei w = Some t -> tok_ok a t) /\ (forall t, w_stsei w = Some t -> tok_ok a t).

(** a pending message is harmless if it is not an UpdateMinter sent by [a] *)
Definition msg_ok (a : addr) (sm : addr * cmsg) : Prop := fst sm = a -> noupd (snd sm).

(** the envelope, per operation of a history *)
Definition minter_env_op (a : addr) (o : op) : Prop :=
  match o with
  | OInstBsei _ h _ => h = a
  | OInstStsei _ h _ _ => h = a
  | OTx s _ (WCw20 (CUpdMinter _)) _ => s <> a
  | _ => True
  end.

Lemma bsei_execute_minter w t sender m t' out :
  bsei_execute w t sender m = Some (t', out) -> tk_minter t' = tk_minter t.
Proof.
  intros H. unfold bsei_execute in H. destruct m.
  - bind_inv H as rc Hrc. check_inv H as Hz. bind_inv H as t1 Hm. inversion H; subst.
    apply tok_move_spec in Hm. tauto.
  - bind_inv H as rc Hrc. check_inv H as Hs. check_inv H as Hz. bind_inv H as t1 Hb. inversion H; subst.
    apply tok_burn_spec in Hb. tauto.
  - bind_inv H as rc Hrc. bind_inv H as t1 Hm. inversion H; subst.
    apply tok_mint_spec in Hm. tauto.
  - bind_inv H as rc Hrc. check_inv H as Hz. bind_inv H as t1 Hm. inversion H; subst.
    apply tok_move_spec in Hm. tauto.
  - bind_inv H as t1 Ha. inversion H; subst. apply tok_inc_allow_frame in Ha. tauto.
  - bind_inv H as t1 Ha. inversion H; subst. apply tok_dec_allow_frame in Ha. tauto.
  - bind_inv H as rc Hrc. bind_inv H as t1 Hd. bind_inv H as t2 Hm. inversion H; subst.
    apply deduct_allowance_spec in Hd. destruct Hd as (a & _ & _ & _ & _ & _ & _ & D3 & _).
    apply tok_move_spec in Hm. destruct Hm as (_ & _ & _ & M & _). congruence.
  - bind_inv H as rc Hrc. bind_inv H as t1 Hd. bind_inv H as t2 Hb. inversion H; subst.
    apply deduct_allowance_spec in Hd. destruct Hd as (a & _ & _ & _ & _ & _ & _ & D3 & _).
    apply tok_burn_spec in Hb. destruct Hb as (_ & _ & _ & _ & M & _). congruence.
  - bind_inv H as rc Hrc. bind_inv H as t1 Hd. bind_inv H as t2 Hm. inversion H; subst.
    apply deduct_allowance_spec in Hd. destruct Hd as (a & _ & _ & _ & _ & _ & _ & D3 & _).
    apply tok_move_spec in Hm. destruct Hm as (_ & _ & _ & M & _). congruence.
  - discriminate.
Qed.

Lemma stsei_execute_minter w t sender m t' out :
  stsei_execute w t sender m = Some (t', out) -> (forall nm, m <> CUpdMinter nm) ->
  tk_minter t' = tk_minter t.
Proof.
  intros H Hno. unfold stsei_execute in H. destruct m.
  - check_inv H as Hz. bind_inv H as t1 Hm. inversion H; subst. apply tok_move_spec in Hm. tauto.
  - check_inv H as Hs. check_inv H as Hz. bind_inv H as t1 Hb. inversion H; subst.
    apply tok_burn_spec in Hb. tauto.
  - bind_inv H as t1 Hm. inversion H; subst. apply tok_mint_spec in Hm. tauto.
  - check_inv H as Hz. bind_inv H as t1 Hm. inversion H; subst. apply tok_move_spec in Hm. tauto.
  - bind_inv H as t1 Ha. inversion H; subst. apply tok_inc_allow_frame in Ha. tauto.
  - bind_inv H as t1 Ha. inversion H; subst. apply tok_dec_allow_frame in Ha. tauto.
  - bind_inv H as t1 Hd. bind_inv H as t2 Hm. inversion H; subst.
    apply deduct_allowance_spec in Hd. destruct Hd as (a & _ & _ & _ & _ & _ & _ & D3 & _).
    apply tok_move_spec in Hm. destruct Hm as (_ & _ & _ & M & _). congruence.
  - bind_inv H as t1 Hd. bind_inv H as t2 Hb. inversion H; subst.
    apply deduct_allowance_spec in Hd. destruct Hd as (a & _ & _ & _ & _ & _ & _ & D3 & _).
    apply tok_burn_spec in Hb. destruct Hb as (_ & _ & _ & _ & M & _). congruence.
  - bind_inv H as t1 Hd. bind_inv H as t2 Hm. inversion H; subst.
    apply deduct_allowance_spec in Hd. destruct Hd as (a & _ & _ & _ & _ & _ & _ & D3 & _).
    apply tok_move_spec in Hm. destruct Hm as (_ & _ & _ & M & _). congruence.
  - exfalso. eapply Hno. reflexivity.
Qed.

(** UpdateMinter: only the current minter; sets exactly the named minter, keeps the cap *)
Lemma stsei_updminter_auth w t sender nm t' out :
  stsei_execute w t sender (CUpdMinter nm) = Some (t', out) ->
  exists cap, tk_minter t = Some (sender, cap) /\ out = [] /\
    t' = set_tk_minter t (match nm with Some x => Some (x, cap) | None => None end).
Proof.
  cbn [stsei_execute]. intros H.
  destruct (tk_minter t) as [[mn cap]|]; [|discriminate]. check_inv H as Hs.
  apply N.eqb_eq in Hs. subst mn. inversion H; subst. eauto.
Qed.

Lemma upd_minter_msg to nm f : upd_minter (MWasm to (WCw20 (CUpdMinter nm)) f) = true.
Proof. reflexivity. Qed.

Lemma step_msg_minterhub a w s m w' out :
  MinterHub a w -> msg_ok a (s, m) -> step_msg w s m = Some (w', out) -> MinterHub a w'.
Proof.
  intros HI Hok H. apply step_msg_inv in H.
  destruct H as [e' -> _ _ | to wm funds e1 o -> Hsend Hc _]; [exact HI|].
  destruct HI as [Hb Hs]. unfold MinterHub.
  destruct Hc as [h hm h' -> -> Hw He -> | r rm r' -> _ Hw He -> | d dm d' -> -> Hw He ->
                 | g gm g' -> -> Hw He -> | t cm t' -> -> Hw He -> | t cm t' -> -> Hw He ->
                 | sm e' -> -> He -> -> | -> -> ->]; cbn [w_bsei w_stsei set_hub set_reward set_disp
                    set_reg set_bsei set_stsei set_env] in *;
    try (split; assumption).
  - split; [|exact Hs]. intros t0 E. inversion E; subst t0.
    destruct (Hb _ Hw) as [B1 B2]. split.
    + apply bsei_execute_hub in He. congruence.
    + apply bsei_execute_minter in He. congruence.
  - split; [exact Hb|]. intros t0 E. inversion E; subst t0.
    destruct (Hs _ Hw) as [B1 B2]. split.
    + apply stsei_execute_hub in He. congruence.
    + destruct cm; try (apply stsei_execute_minter in He; [congruence | intros nm; discriminate]).
      apply stsei_updminter_auth in He. destruct He as (cap & Hm & _ & _).
      rewrite B2 in Hm. inversion Hm; subst.
      specialize (Hok eq_refl). cbn [snd] in Hok. unfold noupd in Hok.
      rewrite upd_minter_msg in Hok. discriminate.
Qed.

Lemma noupd_msg_ok a out : Forall noupd_s out -> Forall (msg_ok a) out.
Proof. intros H. eapply Forall_impl; [|exact H]. intros sm Hn _. exact Hn. Qed.

Definition MinterJ (a : addr) (w : world) (stack : list (addr * cmsg)) : Prop :=
  MinterHub a w /\ Forall (msg_ok a) stack.

Lemma MinterJ_step a w s m rest w' out :
  MinterJ a w ((s, m) :: rest) -> step_msg w s m = Some (w', out) -> MinterJ a w' (out ++ rest).
Proof.
  intros [HI HF] H. inversion HF as [|? ? Hok Hrest]; subst. split.
  - eapply step_msg_minterhub; eauto.
  - apply Forall_app. split; [|exact Hrest].
    apply noupd_msg_ok. eapply step_msg_emits_noupd; eauto.
Qed.

(** a transaction whose root is not an UpdateMinter signed by [a] *)
Theorem tx_minterhub a fuel w s tgt m f tr w' tr' :
  MinterHub a w -> (s = a -> noupd (MWasm tgt m f)) ->
  run fuel w [(s, MWasm tgt m f)] tr = Some (w', tr') -> MinterHub a w'.
Proof.
  intros HI Hroot H.
  assert (HJ : MinterJ a w' []).
  { eapply (run_preserves_stack (MinterJ a)); [|split; [exact HI|]|exact H].
    - intros. eapply MinterJ_step; eauto.
    - constructor; [exact Hroot|constructor]. }
  exact (proj1 HJ).
Qed.

Lemma minter_env_root a s tgt m f :
  minter_env_op a (OTx s tgt m f) -> s = a -> noupd (MWasm tgt m f).
Proof.
  cbn [minter_env_op]. intros H Hs. unfold noupd.
  destruct m as [| | | |cm| |]; try reflexivity. destruct cm; try reflexivity. contradiction.
Qed.

Lemma step_minterhub a w o :
  MinterHub a w -> minter_env_op a o -> MinterHub a (fst (step w o)).
Proof.
  intros HI Henv. destruct o; cbn [step]; try exact HI.
  - split; intros x E; discriminate.
  - destruct (e_now (w_env w) + dt <=? 18446744073); exact HI.
  - destruct (ev_slash _ _ _ _ _); exact HI.
  - destruct (ev_accrue _ _ _ _ _); exact HI.
  - destruct (p =? 0); exact HI.
  - destruct (w_hub w); exact HI.
  - cbn [fst]. destruct HI as [Hb Hs]. split; [|exact Hs].
    intros t E. cbn [w_bsei set_w_bsei] in E. apply tok_instantiate_tinv in E.
    cbn [minter_env_op] in Henv. subst hubaddr. unfold tok_ok. tauto.
  - cbn [fst]. destruct HI as [Hb Hs]. split; [exact Hb|].
    intros t E. cbn [w_stsei set_w_stsei] in E. apply tok_instantiate_tinv in E.
    cbn [minter_env_op] in Henv. subst hubaddr. unfold tok_ok. tauto.
  - destruct (run tx_fuel w _ []) as [[w1 tr1]|] eqn:E; cbn [fst]; [|exact HI].
    eapply tx_minterhub; [exact HI| |exact E]. apply minter_env_root. exact Henv.
Qed.

Theorem minter_hub_history a : forall ops w0,
  Forall (minter_env_op a) ops -> MinterHub a w0 -> MinterHub a (run_ops ops w0).
Proof.
  unfold run_ops. induction ops as [|o ops IH]; intros w0 HF HI; cbn [fold_left]; [exact HI|].
  inversion HF; subst. apply IH; [assumption|]. apply step_minterhub; assumption.
Qed.

Lemma MinterHub_empty a ut : MinterHub a (empty_world ut).
Proof. split; intros t E; discriminate. Qed.

(** every world visited by a history inside the envelope *)
Theorem minter_hub_reachable a ut ops n :
  Forall (minter_env_op a) ops -> MinterHub a (run_ops (firstn n ops) (empty_world ut)).
Proof.
  intros HF. apply minter_hub_history; [|apply MinterHub_empty].
  rewrite <- (firstn_skipn n ops) in HF. apply Forall_app in HF. tauto.
Qed.

(** ** consequence: every executed Mint was sent by [a] *)
Lemma step_mint_sender a w x tok to amt fm w' out :
  MinterHub a w -> tok = A_bsei \/ tok = A_stsei ->
  step_msg w x (MWasm tok (WCw20 (CMint to amt)) fm) = Some (w', out) -> x = a.
Proof.
  intros [Hb Hs] Htok H. apply step_msg_wasm_inv in H. destruct H as (e1 & o & _ & Hc & _).
  destruct Hc as [h hm h' _ E _ _ _ | r rm r' _ E _ _ _ | d dm d' _ E _ _ _
                 | g gm g' _ E _ _ _ | t cm t' _ E Hw He _ | t cm t' _ E Hw He _
                 | sm e' _ E _ _ _ | E _ _]; try discriminate.
  - destruct E as [E | (n & E & _)]; discriminate.
  - inversion E; subst cm. cbn [w_bsei set_env] in Hw. destruct (Hb _ Hw) as [_ Hm].
    unfold bsei_execute in He. bind_inv He as rc Hrc. bind_inv He as t1 Hmint.
    apply tok_mint_spec in Hmint. destruct Hmint as (_ & (cap & Hc) & _). congruence.
  - inversion E; subst cm. cbn [w_stsei set_env] in Hw. destruct (Hs _ Hw) as [_ Hm].
    unfold stsei_execute in He. bind_inv He as t1 Hmint.
    apply tok_mint_spec in Hmint. destruct Hmint as (_ & (cap & Hc) & _). congruence.
  - exfalso. destruct Htok as [-> | ->]; discriminate.
Qed.

Theorem mint_sender_is_hub_tx a w s tgt m f w' tr x tok to amt fm :
  MinterHub a w -> (s = a -> noupd (MWasm tgt m f)) ->
  run tx_fuel w [(s, MWasm tgt m f)] [] = Some (w', tr) ->
  In (x, MWasm tok (WCw20 (CMint to amt)) fm) tr -> tok = A_bsei \/ tok = A_stsei ->
  x = a.
Proof.
  intros HI Hroot H Hin Htok. apply run_Trace in H. destruct H as (ex & -> & HT). cbn [app] in Hin.
  apply in_split in Hin. destruct Hin as (pre & post & E).
  assert (HJ : MinterJ a w [(s, MWasm tgt m f)]) by (split; [exact HI | constructor; [exact Hroot|constructor]]).
  destruct (Trace_split (MinterJ a) (MinterJ_step a) _ _ _ _ HT HJ _ _ _ _ E)
    as (wa & wb & out & rest & [HIa _] & Hs & _).
  eapply step_mint_sender; eauto.
Qed.

(** the same along a history: the transaction is the last operation of a history inside the envelope *)
Theorem mint_sender_is_hub_history a ut ops s tgt m f w' tr x tok to amt fm :
  Forall (minter_env_op a) (ops ++ [OTx s tgt m f]) ->
  run tx_fuel (run_ops ops (empty_world ut)) [(s, MWasm tgt m f)] [] = Some (w', tr) ->
  In (x, MWasm tok (WCw20 (CMint to amt)) fm) tr -> tok = A_bsei \/ tok = A_stsei ->
  x = a.
Proof.
  intros HF. apply Forall_app in HF. destruct HF as [HF Hlast]. inversion Hlast; subst.
  apply mint_sender_is_hub_tx.
  - apply minter_hub_history; [exact HF | apply MinterHub_empty].
  - apply minter_env_root. assumption.
Qed.

(** * PART B — a burn makes the hub synchronise in the same transaction *)

Definition TokHub (w : world) : Prop :=
  (forall t, w_bsei w = Some t -> tk_hub t = A_hub) /\ (forall t, w_stsei w = Some t -> tk_hub t = A_hub).

Definition inst_hub_op (o : op) : Prop :=
  match o with
  | OInstBsei _ h _ => h = A_hub
  | OInstStsei _ h _ _ => h = A_hub
  | _ => True
  end.

Lemma MinterHub_TokHub w : MinterHub A_hub w -> TokHub w.
Proof. intros [Hb Hs]. split; intros t E; [apply (Hb _ E) | apply (Hs _ E)]. Qed.

Lemma step_msg_TokHub w s m w' out : TokHub w -> step_msg w s m = Some (w', out) -> TokHub w'.
Proof.
  intros HI H. apply step_msg_inv in H.
  destruct H as [e' -> _ _ | to wm funds e1 o -> Hsend Hc _]; [exact HI|].
  destruct HI as [Hb Hs]. unfold TokHub.
  destruct Hc as [h hm h' -> -> Hw He -> | r rm r' -> _ Hw He -> | d dm d' -> -> Hw He ->
                 | g gm g' -> -> Hw He -> | t cm t' -> -> Hw He -> | t cm t' -> -> Hw He ->
                 | sm e' -> -> He -> -> | -> -> ->]; cbn [w_bsei w_stsei set_hub set_reward set_disp
                    set_reg set_bsei set_stsei set_env] in *;
    try (split; assumption).
  - split; [|exact Hs]. intros t0 E. inversion E; subst t0.
    apply bsei_execute_hub in He. rewrite He. apply Hb. exact Hw.
  - split; [exact Hb|]. intros t0 E. inversion E; subst t0.
    apply stsei_execute_hub in He. rewrite He. apply Hs. exact Hw.
Qed.

Lemma step_TokHub w o : TokHub w -> inst_hub_op o -> TokHub (fst (step w o)).
Proof.
  intros HI Henv. destruct o; cbn [step]; try exact HI.
  - split; intros x E; discriminate.
  - destruct (e_now (w_env w) + dt <=? 18446744073); exact HI.
  - destruct (ev_slash _ _ _ _ _); exact HI.
  - destruct (ev_accrue _ _ _ _ _); exact HI.
  - destruct (p =? 0); exact HI.
  - destruct (w_hub w); exact HI.
  - cbn [fst]. destruct HI as [Hb Hs]. split; [|exact Hs].
    intros t E. cbn [w_bsei set_w_bsei] in E. apply tok_instantiate_tinv in E.
    cbn [inst_hub_op] in Henv. subst hubaddr. tauto.
  - cbn [fst]. destruct HI as [Hb Hs]. split; [exact Hb|].
    intros t E. cbn [w_stsei set_w_stsei] in E. apply tok_instantiate_tinv in E.
    cbn [inst_hub_op] in Henv. subst hubaddr. tauto.
  - destruct (run tx_fuel w _ []) as [[w1 tr1]|] eqn:E; cbn [fst]; [|exact HI].
    eapply (run_preserves TokHub); [|exact HI|exact E].
    intros. eapply step_msg_TokHub; eauto.
Qed.

Theorem TokHub_history : forall ops w0,
  Forall inst_hub_op ops -> TokHub w0 -> TokHub (run_ops ops w0).
Proof.
  unfold run_ops. induction ops as [|o ops IH]; intros w0 HF HI; cbn [fold_left]; [exact HI|].
  inversion HF; subst. apply IH; [assumption|]. apply step_TokHub; assumption.
Qed.

Theorem TokHub_reachable ut ops : Forall inst_hub_op ops -> TokHub (run_ops ops (empty_world ut)).
Proof. intros HF. apply TokHub_history; [exact HF|]. split; intros t E; discriminate. Qed.

(** ** handler level: what the burning handlers emit *)
Theorem stsei_burn_emits w t sender amt t' out :
  stsei_execute w t sender (CBurn amt) = Some (t', out) ->
  out = [MWasm (tk_hub t) (WHub HCheckSlashing) []].
Proof.
  cbn [stsei_execute]. intros H. check_inv H as Hs. check_inv H as Hz. bind_inv H as t1 Hb.
  inversion H; subst. reflexivity.
Qed.

Theorem stsei_burnfrom_emits w t sender o amt t' out :
  stsei_execute w t sender (CBurnFrom o amt) = Some (t', out) ->
  out = [MWasm (tk_hub t) (WHub HCheckSlashing) []].
Proof.
  cbn [stsei_execute]. intros H. bind_inv H as t1 Hd. bind_inv H as t2 Hb.
  inversion H; subst. reflexivity.
Qed.

Theorem bsei_burnfrom_emits w t sender o amt t' out :
  bsei_execute w t sender (CBurnFrom o amt) = Some (t', out) ->
  exists rc, query_reward_contract w t = Some rc /\
    out = [MWasm rc (WReward (RDec o amt)) []; MWasm (tk_hub t) (WHub HCheckSlashing) []].
Proof. intros H. apply bsei_execute_out in H. exact H. Qed.

(** the negative fact: bSei plain Burn (hub only) emits the reward mirror message and nothing else *)
Theorem bsei_burn_emits w t sender amt t' out :
  bsei_execute w t sender (CBurn amt) = Some (t', out) ->
  sender = tk_hub t /\
  exists rc, query_reward_contract w t = Some rc /\ out = [MWasm rc (WReward (RDec sender amt)) []].
Proof.
  intros H. split.
  - unfold bsei_execute in H. bind_inv H as rc Hrc. check_inv H as Hs. apply N.eqb_eq in Hs. exact Hs.
  - apply bsei_execute_out in H. exact H.
Qed.

(** ** the CheckSlashing leg *)
Definition check_msg : cmsg := MWasm A_hub (WHub HCheckSlashing) [].

Definition SyncLeg (wa : world) (tok : addr) (wb : world) : Prop :=
  step_msg wa tok check_msg = Some (wb, []) /\
  exists h h1, w_hub wa = Some h /\ paused h = false /\ slashing wa A_hub h = Some h1 /\
               wb = set_hub wa h1.

Lemma sync_leg wa tok wb out :
  step_msg wa tok check_msg = Some (wb, out) -> out = [] /\ SyncLeg wa tok wb.
Proof.
  intros H. unfold SyncLeg. pose proof H as H0. unfold check_msg in H. rewrite Slash_step_check in H.
  destruct (w_hub wa) as [h|] eqn:Hh; cbn [bind] in H; [|discriminate].
  destruct (paused h) eqn:Hp; cbn [negb] in H; [discriminate|].
  destruct (slashing wa A_hub h) as [h1|] eqn:Hs; cbn [bind] in H; [|discriminate].
  inversion H; subst. split; [reflexivity|]. split; [exact H0|]. exists h, h1. auto.
Qed.

Definition is_burn (cm : cw20_msg) : bool :=
  match cm with CBurn _ | CBurnFrom _ _ => true | _ => false end.

(** ** message level: the emitted messages, tagged, when the tokens name the hub *)
Lemma step_stsei_burn w x cm fb w' out :
  TokHub w -> is_burn cm = true ->
  step_msg w x (MWasm A_stsei (WCw20 cm) fb) = Some (w', out) -> out = [(A_stsei, check_msg)].
Proof.
  intros [_ Hs] Hb H. apply step_msg_wasm_inv in H. destruct H as (e1 & o & _ & Hc & ->).
  destruct Hc as [h hm h' E _ _ _ _ | r rm r' E _ _ _ _ | d dm d' E _ _ _ _
                 | g gm g' E _ _ _ _ | t cm' t' E _ _ _ _ | t cm' t' _ E Hw He _
                 | sm e' E _ _ _ _ | E _ _]; try discriminate.
  inversion E; subst cm'. cbn [w_stsei set_env] in Hw. specialize (Hs _ Hw).
  destruct cm; try discriminate.
  - apply stsei_burn_emits in He. subst o. rewrite Hs. reflexivity.
  - apply stsei_burnfrom_emits in He. subst o. rewrite Hs. reflexivity.
Qed.

Lemma step_bsei_burnfrom w x o amt fb w' out :
  TokHub w ->
  step_msg w x (MWasm A_bsei (WCw20 (CBurnFrom o amt)) fb) = Some (w', out) ->
  exists rc, out = [(A_bsei, MWasm rc (WReward (RDec o amt)) []); (A_bsei, check_msg)].
Proof.
  intros [Hb _] H. apply step_msg_wasm_inv in H. destruct H as (e1 & o' & _ & Hc & ->).
  destruct Hc as [h hm h' E _ _ _ _ | r rm r' E _ _ _ _ | d dm d' E _ _ _ _
                 | g gm g' E _ _ _ _ | t cm' t' _ E Hw He _ | t cm' t' E _ _ _ _
                 | sm e' E _ _ _ _ | E _ _]; try discriminate.
  inversion E; subst cm'. cbn [w_bsei set_env] in Hw. specialize (Hb _ Hw).
  apply bsei_burnfrom_emits in He. destruct He as (rc & _ & ->). exists rc. rewrite Hb. reflexivity.
Qed.

(** DecreaseBalance emits nothing, whoever receives it *)
Lemma step_rdec_out w s rc a amt f w' out :
  step_msg w s (MWasm rc (WReward (RDec a amt)) f) = Some (w', out) -> out = [].
Proof.
  intros H. apply step_msg_wasm_inv in H. destruct H as (e1 & o & _ & Hc & ->).
  destruct Hc as [h hm h' _ E _ _ _ | r rm r' _ E _ He _ | d dm d' _ E _ _ _
                 | g gm g' _ E _ _ _ | t cm' t' _ E _ _ _ | t cm' t' _ E _ _ _
                 | sm e' _ E _ _ -> | _ _ ->]; try discriminate; try reflexivity.
  destruct E as [E | (n & E & _)]; [|discriminate]. inversion E; subst rm.
  cbn [reward_execute] in He.
  bind_inv He as tok Htok. check_inv He as Hs. check_inv He as Hle.
  bind_inv He as rewards Hrw. bind_inv He as pend Hpend.
  bind_inv He as b Hb. bind_inv He as tot Htot. inversion He; subst. reflexivity.
Qed.

(** ** trace level *)
Lemma TokHub_J_step w s m (rest : list (addr * cmsg)) w' out :
  TokHub w -> step_msg w s m = Some (w', out) -> TokHub w'.
Proof. apply step_msg_TokHub. Qed.

Theorem trace_stsei_burn w stack ex w' pre x cm fb post :
  Trace w stack ex w' -> TokHub w ->
  ex = pre ++ (x, MWasm A_stsei (WCw20 cm) fb) :: post -> is_burn cm = true ->
  exists w1 w2 w3 post',
    step_msg w1 x (MWasm A_stsei (WCw20 cm) fb) = Some (w2, [(A_stsei, check_msg)]) /\
    post = (A_stsei, check_msg) :: post' /\ SyncLeg w2 A_stsei w3.
Proof.
  intros HT HI E Hb.
  destruct (Trace_split (fun w _ => TokHub w)
              (fun w s m rest w' out => TokHub_J_step w s m rest w' out) _ _ _ _ HT HI _ _ _ _ E)
    as (wa & wb & out & rest & HIa & Hs & HT2).
  pose proof (step_stsei_burn _ _ _ _ _ _ HIa Hb Hs) as ->.
  cbn [app] in HT2. inversion HT2 as [|? ? ? ? w3 out3 ex3 ? Hs3 HT3]; subst.
  apply sync_leg in Hs3. destruct Hs3 as [-> HL].
  exists wa, wb, w3, ex3. auto.
Qed.

Theorem trace_bsei_burnfrom w stack ex w' pre x o amt fb post :
  Trace w stack ex w' -> TokHub w ->
  ex = pre ++ (x, MWasm A_bsei (WCw20 (CBurnFrom o amt)) fb) :: post ->
  exists rc w1 w2 w2' w3 post',
    step_msg w1 x (MWasm A_bsei (WCw20 (CBurnFrom o amt)) fb) =
      Some (w2, [(A_bsei, MWasm rc (WReward (RDec o amt)) []); (A_bsei, check_msg)]) /\
    step_msg w2 A_bsei (MWasm rc (WReward (RDec o amt)) []) = Some (w2', []) /\
    post = (A_bsei, MWasm rc (WReward (RDec o amt)) []) :: (A_bsei, check_msg) :: post' /\
    SyncLeg w2' A_bsei w3.
Proof.
  intros HT HI E.
  destruct (Trace_split (fun w _ => TokHub w)
              (fun w s m rest w' out => TokHub_J_step w s m rest w' out) _ _ _ _ HT HI _ _ _ _ E)
    as (wa & wb & out & rest & HIa & Hs & HT2).
  destruct (step_bsei_burnfrom _ _ _ _ _ _ _ HIa Hs) as (rc & ->).
  cbn [app] in HT2. inversion HT2 as [|? ? ? ? w2' out2 ex2 ? Hs2 HT2']; subst.
  pose proof (step_rdec_out _ _ _ _ _ _ _ _ Hs2) as ->. cbn [app] in HT2'.
  inversion HT2' as [|? ? ? ? w3 out3 ex3 ? Hs3 HT3]; subst.
  apply sync_leg in Hs3. destruct Hs3 as [-> HL].
  exists rc, wa, wb, w2', w3, ex3. auto.
Qed.

(** ** transaction level *)
Theorem tx_stsei_burn_syncs w sender target m funds w' tr pre x cm fb post :
  TokHub w -> run tx_fuel w [(sender, MWasm target m funds)] [] = Some (w', tr) ->
  tr = pre ++ (x, MWasm A_stsei (WCw20 cm) fb) :: post -> is_burn cm = true ->
  exists w1 w2 w3 post',
    step_msg w1 x (MWasm A_stsei (WCw20 cm) fb) = Some (w2, [(A_stsei, check_msg)]) /\
    post = (A_stsei, check_msg) :: post' /\ SyncLeg w2 A_stsei w3.
Proof.
  intros HI H E Hb. apply run_Trace in H. destruct H as (ex & -> & HT). cbn [app] in E.
  eapply trace_stsei_burn; eauto.
Qed.

Theorem tx_bsei_burnfrom_syncs w sender target m funds w' tr pre x o amt fb post :
  TokHub w -> run tx_fuel w [(sender, MWasm target m funds)] [] = Some (w', tr) ->
  tr = pre ++ (x, MWasm A_bsei (WCw20 (CBurnFrom o amt)) fb) :: post ->
  exists rc w1 w2 w2' w3 post',
    step_msg w1 x (MWasm A_bsei (WCw20 (CBurnFrom o amt)) fb) =
      Some (w2, [(A_bsei, MWasm rc (WReward (RDec o amt)) []); (A_bsei, check_msg)]) /\
    step_msg w2 A_bsei (MWasm rc (WReward (RDec o amt)) []) = Some (w2', []) /\
    post = (A_bsei, MWasm rc (WReward (RDec o amt)) []) :: (A_bsei, check_msg) :: post' /\
    SyncLeg w2' A_bsei w3.
Proof.
  intros HI H E. apply run_Trace in H. destruct H as (ex & -> & HT). cbn [app] in E.
  eapply trace_bsei_burnfrom; eauto.
Qed.

(** ** history level: the transaction is applied to a world reached by any history whose token
       instantiations name the hub *)
Theorem hist_stsei_burn_syncs ut ops sender target m funds w' tr pre x cm fb post :
  Forall inst_hub_op ops ->
  run tx_fuel (run_ops ops (empty_world ut)) [(sender, MWasm target m funds)] [] = Some (w', tr) ->
  tr = pre ++ (x, MWasm A_stsei (WCw20 cm) fb) :: post -> is_burn cm = true ->
  exists w1 w2 w3 post',
    step_msg w1 x (MWasm A_stsei (WCw20 cm) fb) = Some (w2, [(A_stsei, check_msg)]) /\
    post = (A_stsei, check_msg) :: post' /\ SyncLeg w2 A_stsei w3.
Proof. intros HF. apply tx_stsei_burn_syncs. apply TokHub_reachable. exact HF. Qed.

Theorem hist_bsei_burnfrom_syncs ut ops sender target m funds w' tr pre x o amt fb post :
  Forall inst_hub_op ops ->
  run tx_fuel (run_ops ops (empty_world ut)) [(sender, MWasm target m funds)] [] = Some (w', tr) ->
  tr = pre ++ (x, MWasm A_bsei (WCw20 (CBurnFrom o amt)) fb) :: post ->
  exists rc w1 w2 w2' w3 post',
    step_msg w1 x (MWasm A_bsei (WCw20 (CBurnFrom o amt)) fb) =
      Some (w2, [(A_bsei, MWasm rc (WReward (RDec o amt)) []); (A_bsei, check_msg)]) /\
    step_msg w2 A_bsei (MWasm rc (WReward (RDec o amt)) []) = Some (w2', []) /\
    post = (A_bsei, MWasm rc (WReward (RDec o amt)) []) :: (A_bsei, check_msg) :: post' /\
    SyncLeg w2' A_bsei w3.
Proof. intros HF. apply tx_bsei_burnfrom_syncs. apply TokHub_reachable. exact HF. Qed.

(** * Examples: non-vacuity and witnesses (concrete deployment [genesis_ops] / [world0] of
      Proofs/ExitWorld.v: six wired contracts, alice holds 1 000 000 bSei, bob 2 000 000 stSei) *)

(** the envelope of PART A holds on the deployment history, and the invariant is not trivial there *)
Example minter_env_nonvacuous :
  Forall (minter_env_op A_hub) genesis_ops /\ MinterHub A_hub world0 /\
  (exists tb ts, w_bsei world0 = Some tb /\ w_stsei world0 = Some ts /\
                 tk_minter tb = Some (A_hub, None) /\ tk_minter ts = Some (A_hub, None)).
Proof.
  assert (HF : Forall (minter_env_op A_hub) genesis_ops).
  { unfold genesis_ops. repeat (constructor; [cbn [minter_env_op]; auto|]). constructor. }
  split; [exact HF|]. split.
  - apply minter_hub_history; [exact HF | apply MinterHub_empty].
  - vm_compute. eauto 10.
Qed.

(** both clauses of the envelope are needed (model facts, not defects: the chain model lets ANY
    address sign a root transaction, also a contract address, and lets a token be instantiated with
    any "hub" address) *)
Lemma minter_change_witness_root :
  option_map tk_minter
    (w_stsei (run_ops (genesis_ops ++ [OTx A_hub A_stsei (WCw20 (CUpdMinter (Some 14))) []])
                      (empty_world 100))) = Some (Some (14, None)).
Proof. vm_compute. reflexivity. Qed.

Lemma minter_change_witness_inst :
  option_map (fun t => (tk_hub t, tk_minter t, tk_supply t))
    (w_stsei (run_ops [OInstStsei A_owner 14 2 [];
                       OTx 14 A_stsei (WCw20 (CUpdMinter (Some 15))) [];
                       OTx 15 A_stsei (WCw20 (CMint 15 1000)) []] (empty_world 100)))
  = Some (14, Some (15, None), 1000).
Proof. vm_compute. reflexivity. Qed.

(** a successful Bond transaction executes a Mint, and its sender is the hub *)
Example mint_tx_nonvacuous :
  exists w' tr,
    run tx_fuel world0 [(alice, MWasm A_hub (WHub HBond) [(usei, 5000)])] [] = Some (w', tr) /\
    In (A_hub, MWasm A_bsei (WCw20 (CMint alice 5000)) []) tr.
Proof.
  destruct (run tx_fuel world0 [(alice, MWasm A_hub (WHub HBond) [(usei, 5000)])] []) as [[w' tr]|] eqn:E;
    [|vm_compute in E; discriminate].
  exists w', tr. split; [reflexivity|].
  assert (Ht : tr = [(11, MWasm 1 (WHub HBond) [(2, 5000)]); (1, MDelegate 0 (2, 1667));
                     (1, MDelegate 1 (2, 1667)); (1, MDelegate 2 (2, 1666));
                     (1, MWasm 5 (WCw20 (CMint 11 5000)) []); (5, MWasm 2 (WReward (RInc 11 5000)) [])]).
  { vm_compute in E. inversion E. reflexivity. }
  rewrite Ht. cbn [In]. right. right. right. right. left. reflexivity.
Qed.

Definition trace_of (r : result (world * list (addr * cmsg))) : option (list (addr * cmsg)) :=
  match r with Some (_, tr) => Some tr | None => None end.

Example TokHub_nonvacuous : Forall inst_hub_op genesis_ops /\ TokHub world0.
Proof.
  assert (HF : Forall inst_hub_op genesis_ops).
  { unfold genesis_ops. repeat (constructor; [cbn [inst_hub_op]; auto|]). constructor. }
  split; [exact HF | apply TokHub_reachable; exact HF].
Qed.

(** stSei BurnFrom by a spender (bob granted alice 500) and stSei Burn by the hub inside an unbond *)
Definition world_st_allow : world :=
  run_ops [OTx bob A_stsei (WCw20 (CIncAllow alice 500 None)) []] world0.

Example stsei_burnfrom_tx_nonvacuous :
  TokHub world_st_allow /\
  trace_of (run tx_fuel world_st_allow [(alice, MWasm A_stsei (WCw20 (CBurnFrom bob 300)) [])] []) =
  Some ([] ++ (alice, MWasm A_stsei (WCw20 (CBurnFrom bob 300)) []) :: [(A_stsei, check_msg)]).
Proof.
  split; [|vm_compute; reflexivity].
  apply TokHub_history; [repeat constructor | apply TokHub_nonvacuous].
Qed.

Example stsei_burn_tx_nonvacuous :
  trace_of (run tx_fuel world0 [(bob, MWasm A_stsei (WCw20 (CSend A_hub 1000 HkUnbond)) [])] []) =
  Some ([(bob, MWasm A_stsei (WCw20 (CSend A_hub 1000 HkUnbond)) []);
         (A_stsei, MWasm A_hub (WHub (HReceive bob 1000 HkUnbond)) [])] ++
        (A_hub, MWasm A_stsei (WCw20 (CBurn 1000)) []) :: [(A_stsei, check_msg)]).
Proof. vm_compute. reflexivity. Qed.

(** bSei BurnFrom by a spender (alice granted bob 500) *)
Definition world_b_allow : world :=
  run_ops [OTx alice A_bsei (WCw20 (CIncAllow bob 500 None)) []] world0.

Example bsei_burnfrom_tx_nonvacuous :
  TokHub world_b_allow /\
  trace_of (run tx_fuel world_b_allow [(bob, MWasm A_bsei (WCw20 (CBurnFrom alice 300)) [])] []) =
  Some ([] ++ (bob, MWasm A_bsei (WCw20 (CBurnFrom alice 300)) []) ::
        [(A_bsei, MWasm A_reward (WReward (RDec alice 300)) []); (A_bsei, check_msg)]).
Proof.
  split; [|vm_compute; reflexivity].
  apply TokHub_history; [repeat constructor | apply TokHub_nonvacuous].
Qed.

(** bSei plain Burn inside an unbond: the trace ends with the reward leg, no CheckSlashing after it *)
Example bsei_burn_tx_no_check :
  trace_of (run tx_fuel world0 [(alice, MWasm A_bsei (WCw20 (CSend A_hub 1000 HkUnbond)) [])] []) =
  Some [(alice, MWasm A_bsei (WCw20 (CSend A_hub 1000 HkUnbond)) []);
        (A_bsei, MWasm A_reward (WReward (RDec alice 1000)) []);
        (A_bsei, MWasm A_reward (WReward (RInc A_hub 1000)) []);
        (A_bsei, MWasm A_hub (WHub (HReceive alice 1000 HkUnbond)) []);
        (A_hub, MWasm A_bsei (WCw20 (CBurn 1000)) []);
        (A_bsei, MWasm A_reward (WReward (RDec A_hub 1000)) [])].
Proof. vm_compute. reflexivity. Qed.

(** [TokHub] is needed: a stSei token instantiated with the (stub) airdrop address 9 as "hub" sends
    its CheckSlashing there; the burn succeeds and no hub code runs (there is not even a hub) *)
Lemma tokhub_needed_witness :
  let w := run_ops [OInstStsei A_owner A_airdrop 2 [(bob, 1000)];
                    OTx bob A_stsei (WCw20 (CIncAllow alice 500 None)) []] (empty_world 100) in
  w_hub w = None /\
  trace_of (run tx_fuel w [(alice, MWasm A_stsei (WCw20 (CBurnFrom bob 300)) [])] []) =
  Some [(alice, MWasm A_stsei (WCw20 (CBurnFrom bob 300)) []);
        (A_stsei, MWasm A_airdrop (WHub HCheckSlashing) [])].
Proof. vm_compute. split; reflexivity. Qed.

(** the history-level forms: the same transactions as last operation of the deployment history *)
Example mint_history_nonvacuous :
  Forall (minter_env_op A_hub) (genesis_ops ++ [OTx alice A_hub (WHub HBond) [(usei, 5000)]]) /\
  exists tr,
    trace_of (run tx_fuel (run_ops genesis_ops (empty_world 100))
                  [(alice, MWasm A_hub (WHub HBond) [(usei, 5000)])] []) = Some tr /\
    In (A_hub, MWasm A_bsei (WCw20 (CMint alice 5000)) []) tr.
Proof.
  split.
  - apply Forall_app. split; [apply minter_env_nonvacuous|]. constructor; [exact I|constructor].
  - eexists. split; [vm_compute; reflexivity|]. cbn [In]. right. right. right. right. left. reflexivity.
Qed.

Example hist_burn_nonvacuous :
  let ops := genesis_ops ++ [OTx bob A_stsei (WCw20 (CIncAllow alice 500 None)) []] in
  Forall inst_hub_op ops /\
  trace_of (run tx_fuel (run_ops ops (empty_world 100))
                [(alice, MWasm A_stsei (WCw20 (CBurnFrom bob 300)) [])] []) =
  Some ([] ++ (alice, MWasm A_stsei (WCw20 (CBurnFrom bob 300)) []) :: [(A_stsei, check_msg)]).
Proof.
  split; [|vm_compute; reflexivity].
  apply Forall_app. split; [apply TokHub_nonvacuous | repeat constructor].
Qed.
