(** * ExitTx: the WHOLE unbond transaction succeeds at chain level (property C09, composition of the
    handler-level results of Proofs/ExitP.v with the executor, the reward mirror and the staking module).

    Message trees (depth first, every leg proved to succeed):
      stSei:  token.Send -> hub.Receive{Unbond} -> MUndelegate* (only if the epoch period is over)
                                                -> token.Burn -> hub.CheckSlashing
      bSei:   token.Send -> reward.DecreaseBalance(user), reward.IncreaseBalance(hub),
                            hub.Receive{Unbond} -> MUndelegate* (only if the epoch period is over)
                                                -> token.Burn -> reward.DecreaseBalance(hub)

    Main theorems
    - [xt_exec_undelegations] / [xt_pick_validator_exec] / [xt_maybe_undelegate_exec] :
          the staking module executes every Undelegate message planned by [pick_validator] (the plan
          never takes more from a validator than the hub has delegated to it; distinct validators;
          amounts > 0 in usei): delegated stake falls by exactly the planned total, one unbonding entry
          per message, nothing else changes except reward payouts to the hub's withdraw address.
    - [unbond_tx_stsei_exact] / [unbond_tx_bsei_exact] :
          under the named premises [run tx_fuel w [root] []] = Some of an explicitly given final world
          (hub = the synchronised hub with the request recorded, batch closed if the epoch is over,
          re-synchronised by the final CheckSlashing for stSei; token = moved then burnt; reward contract
          = Dec(user), Inc(hub), Dec(hub); environment = after the undelegations).
    - [unbond_tx_stsei] / [unbond_tx_bsei] :
          readable form: the transaction succeeds; the user's token balance and the supply fall by a;
          the user's wait entry for the batch that was open grows by a (stSei) / a - peg fee (bSei);
          epoch not over: the request joins the open batch and the environment is untouched; epoch over:
          the batch is closed with every request in it, the staking module undelegated exactly the
          amount owed to the batch at the applied rates, unbonding entries appended; [Books] holds after.
    - [unbond_tx_stsei_step] / [unbond_tx_bsei_step] : the outcome flag of [step w (OTx ...)] is [true].
    - [unbond_tx_stsei_next] / [unbond_tx_bsei_next] : which premises of the NEXT exit hold afterwards.
    - [xt_E1_holder_fits] : the E1 bound on a reward-holder record implies C16's [AccrualFits].
    - non-vacuity: [xt_premises_world1], [xt_premises_world0], [unbond_tx_examples_by_theorem]. *)
From Coq Require Import Permutation.
From Krp Require Import Tactics Prelude Fixed FMap Types Env Registry Cw20 Reward Dispatcher Hub Exec
     ExecP Inv RegistryP HubFrame HubAdmin Cw20P BooksEnv BooksHub BooksP IndexRun IndexEnv MirrorWire MirrorP
     ExitWorld ExitP.
Open Scope N_scope.

(** ** 0. executor plumbing *)
Lemma xt_set_env_same w : set_env w (w_env w) = w.
Proof. destruct w; reflexivity. Qed.

Lemma xt_step_wasm w s to wm :
  step_msg w s (MWasm to wm []) =
  (do r <- call w s to wm []; Some (fst r, tag to (snd r))).
Proof. cbn [step_msg send_coins foldM bind]. rewrite xt_set_env_same. reflexivity. Qed.

Lemma xt_call_hub w s hm funds :
  call w s A_hub (WHub hm) funds =
  (do h <- w_hub w; do r <- hub_execute w h A_hub s funds hm; Some (set_hub w (fst r), snd r)).
Proof. reflexivity. Qed.

Lemma xt_call_stsei w s cm funds :
  call w s A_stsei (WCw20 cm) funds =
  (do x <- w_stsei w; do r <- stsei_execute w x s cm; Some (set_stsei w (fst r), snd r)).
Proof. reflexivity. Qed.

Lemma xt_call_bsei w s cm funds :
  call w s A_bsei (WCw20 cm) funds =
  (do x <- w_bsei w; do r <- bsei_execute w x s cm; Some (set_bsei w (fst r), snd r)).
Proof. reflexivity. Qed.

Lemma xt_call_reward w s rm funds :
  call w s A_reward (WReward rm) funds =
  (do x <- w_reward w; do r <- reward_execute w x A_reward s rm; Some (set_reward w (fst r), snd r)).
Proof. reflexivity. Qed.

(** ** 1. the staking module executes an undelegation plan *)

Lemma xt_do_undelegate_ok e x v amt cur :
  amt <> 0 -> delegation e x v = Some cur -> amt <= cur ->
  exists e', do_undelegate e x v (usei, amt) = Some e'.
Proof.
  intros Hnz Hd Hle. unfold do_undelegate, staking_coin_ok. cbn [fst snd].
  change (usei =? usei) with true. assert (E : (amt =? 0) = false) by lia. rewrite E. cbn [negb andb].
  rewrite Hd. assert (E2 : (amt <=? cur) = true) by lia. rewrite E2. eexists; reflexivity.
Qed.

Definition und_msg (v : val) (a : N) : cmsg := MUndelegate v (usei, a).

(** the unbonding-queue entry created by an Undelegate message of the hub at time [t] *)
Definition unb_entry (t : N) (m : cmsg) : addr * val * N * N :=
  match m with MUndelegate v c => (A_hub, v, snd c, t) | _ => (A_hub, 0, 0, t) end.

Lemma xt_plan_length (mk : val -> N -> cmsg) : forall vals ys, (length (plan mk vals ys) <= length vals)%nat.
Proof.
  unfold plan. induction vals as [|p vals IH]; intros [|y ys]; cbn [combine flat_map length]; try lia.
  rewrite app_length. specialize (IH ys). destruct (snd (p, y) =? 0); cbn [length]; lia.
Qed.

Lemma xt_exec_undelegations W : forall vals ys e,
  NoDup (map fst vals) -> Forall2 (fun p y => y <= snd p) vals ys -> DelWf e ->
  (forall v d, In (v, d) vals -> delegation e A_hub v = Some d) ->
  exists e',
    Exec (set_env W e) (tag A_hub (plan und_msg vals ys)) (set_env W e') (length (plan und_msg vals ys)) /\
    DelWf e' /\
    delegated e' A_hub + sumN ys = delegated e A_hub /\
    e_unb e' = e_unb e ++ map (unb_entry (e_now e + e_ut e)) (plan und_msg vals ys) /\
    e_now e' = e_now e /\ e_ut e' = e_ut e /\ e_wdaddr e' = e_wdaddr e /\ e_noredel e' = e_noredel e /\
    (forall y, y <> A_hub -> all_delegations e' y = all_delegations e y) /\
    (forall a d, a <> withdraw_addr e A_hub -> bal e' a d = bal e a d) /\
    (forall a d, bal e a d <= bal e' a d).
Proof.
  induction vals as [|[v d] vals IH]; intros ys e Hnd Hle Hwf Hent.
  - inversion Hle; subst. exists e. cbn [plan combine flat_map tag map length sumN].
    split; [constructor|]. split; [exact Hwf|]. rewrite app_nil_r.
    repeat split; try reflexivity; try lia.
  - inversion Hle as [|? y ? ys' Hy Hle']; subst. cbn [snd] in Hy.
    inversion Hnd as [|? ? Hnin Hnd']; subst. cbn [map fst] in Hnin.
    unfold plan. cbn [combine flat_map fst snd]. fold (plan und_msg vals ys').
    assert (Hent' : forall e1, (forall y0 v', (y0, v') <> (A_hub, v) -> delegation e1 y0 v' = delegation e y0 v') ->
              forall v0 d0, In (v0, d0) vals -> delegation e1 A_hub v0 = Some d0).
    { intros e1 Ho v0 d0 Hi. rewrite Ho; [apply Hent; right; exact Hi|].
      intros E. inversion E; subst v0. apply Hnin. apply in_map_iff. exists (v, d0). split; [reflexivity|exact Hi]. }
    destruct (y =? 0) eqn:Ey.
    + apply N.eqb_eq in Ey. subst y. cbn [app].
      destruct (IH ys' e Hnd' Hle' Hwf) as (e' & X & R); [intros v0 d0 Hi; apply Hent; right; exact Hi|].
      exists e'. split; [exact X|]. cbn [sumN]. rewrite N.add_0_l. exact R.
    + assert (Hynz : y <> 0) by lia.
      destruct (xt_do_undelegate_ok e A_hub v y d Hynz (Hent v d (or_introl eq_refl)) Hy) as [e1 He1].
      pose proof (do_undelegate_spec _ _ _ _ _ He1 Hwf) as
          (_ & _ & _ & _ & _ & S6 & S7 & S8 & S9 & S10 & S11 & S12 & S13 & S14 & S15 & S16).
      cbn [snd] in S7, S9.
      destruct (IH ys' e1 Hnd' Hle' S16 (Hent' e1 S6)) as
          (e' & X & R1 & R2 & R3 & R4 & R5 & R6 & R7 & R8 & R9 & R10).
      exists e'. split.
      { cbn [app tag map length]. eapply Exec_leaf_cons; [|exact X].
        unfold und_msg. cbn [step_msg]. change (w_env (set_env W e)) with e. rewrite He1. reflexivity. }
      split; [exact R1|]. split; [cbn [sumN]; lia|].
      split.
      { rewrite R3, S9, S12, S13. cbn [app map unb_entry und_msg snd]. rewrite <- app_assoc. reflexivity. }
      split; [congruence|]. split; [congruence|]. split; [congruence|]. split; [congruence|].
      split; [intros y0 Hy0; rewrite R8, S8 by exact Hy0; reflexivity|].
      assert (Hw1 : withdraw_addr e1 A_hub = withdraw_addr e A_hub) by (unfold withdraw_addr; rewrite S10; reflexivity).
      split.
      { intros a0 d0 Ha0. rewrite R9 by (rewrite Hw1; exact Ha0). apply S14. exact Ha0. }
      intros a0 d0. eapply N.le_trans; [apply S15 | apply R10].
Qed.

(** ** 2. the plan computed by [pick_validator] is executable *)
Lemma xt_bounds_Forall2 : forall (vals : list (val * N)) ys,
  length ys = length vals ->
  (forall j, (j < length (map snd vals))%nat -> nth j ys 0 <= nth j (map snd vals) 0) ->
  Forall2 (fun p y => y <= snd p) vals ys.
Proof.
  induction vals as [|p vals IH]; intros [|y ys] Hl Hb; cbn [length] in Hl; try discriminate; constructor.
  - apply (Hb 0%nat). cbn [map length]. lia.
  - apply IH; [lia|]. intros j Hj. apply (Hb (S j)). cbn [map length]. lia.
Qed.

Lemma xt_all_delegations_length e x : (length (all_delegations e x) <= 12)%nat.
Proof.
  unfold all_delegations. change 12%nat with (length VALS).
  induction VALS as [|v l IH]; cbn [flat_map length]; [lia|].
  rewrite app_length. destruct (delegation e x v); cbn [length]; lia.
Qed.

Lemma xt_sorted_delegations e x :
  let vals := sort_desc (all_delegations e x) in
  NoDup (map fst vals) /\ (length vals <= 12)%nat /\
  (forall v d, In (v, d) vals -> delegation e x v = Some d).
Proof.
  intros vals. pose proof (stable_sort_perm (fun a b : val * N => snd b <? snd a) (all_delegations e x)) as HP.
  fold (sort_desc (all_delegations e x)) in HP. fold vals in HP. split; [|split].
  - eapply Permutation_NoDup; [apply Permutation_map; apply Permutation_sym; exact HP|].
    apply (del_vals_NoDup e x).
  - rewrite (Permutation_length HP). apply xt_all_delegations_length.
  - intros v d Hi. apply (Permutation_in _ HP) in Hi. apply all_delegations_In in Hi. tauto.
Qed.

Lemma xt_pick_validator_exec W w h claim msgs :
  pick_validator w A_hub h claim = Some msgs -> hp_underlying (h_params h) = usei ->
  w_env W = w_env w -> DelWf (w_env w) ->
  exists e',
    Exec W (tag A_hub msgs) (set_env W e') (length msgs) /\ (length msgs <= 12)%nat /\
    DelWf e' /\
    delegated e' A_hub + claim = delegated (w_env w) A_hub /\ usum msgs = claim /\
    e_unb e' = e_unb (w_env w) ++ map (unb_entry (e_now (w_env w) + e_ut (w_env w))) msgs /\
    e_now e' = e_now (w_env w) /\ e_ut e' = e_ut (w_env w) /\
    e_wdaddr e' = e_wdaddr (w_env w) /\ e_noredel e' = e_noredel (w_env w) /\
    (forall y, y <> A_hub -> all_delegations e' y = all_delegations (w_env w) y) /\
    (forall a d, a <> withdraw_addr (w_env w) A_hub -> bal e' a d = bal (w_env w) a d) /\
    (forall a d, bal (w_env w) a d <= bal e' a d).
Proof.
  intros Hp Hu HeW Hwf. pose proof (pick_validator_spec _ _ _ _ _ Hp) as (Hus & _).
  unfold pick_validator in Hp. bind_inv Hp as ys Hys. inversion Hp; subst msgs. clear Hp.
  rewrite Hu in *.
  set (vals := sort_desc (all_delegations (w_env w) A_hub)) in *.
  change (flat_map _ (combine vals ys)) with (plan und_msg vals ys) in *.
  apply undeleg_some in Hys. destruct Hys as (Hl & Hs & _ & _ & Hb). rewrite map_length in Hl.
  destruct (xt_sorted_delegations (w_env w) A_hub) as (Hnd & Hlen & Hent). fold vals in Hnd, Hlen, Hent.
  pose proof (xt_bounds_Forall2 vals ys Hl Hb) as HF.
  destruct (xt_exec_undelegations W vals ys (w_env w) Hnd HF Hwf Hent) as (e' & X & R).
  exists e'. rewrite <- HeW in X at 1. rewrite xt_set_env_same in X. split; [exact X|].
  split; [pose proof (xt_plan_length und_msg vals ys); lia|].
  rewrite Hs in R. destruct R as (R1 & R2 & R). split; [exact R1|]. split; [exact R2|]. split; [exact Hus|]. exact R.
Qed.

(** ** 3. the hub's in-memory batch closing, explicitly *)
Lemma xt_mulU_inv a r x : mulU a r = Some x -> x = a * r / D.
Proof.
  unfold mulU. destruct ((a =? 0) || (r =? 0)) eqn:E.
  - intros H. inversion H; subst x. apply orb_true_iff in E.
    destruct E as [E|E]; apply N.eqb_eq in E; subst; rewrite ?N.mul_0_l, ?N.mul_0_r; symmetry; apply N.div_0_l; exact D_nz.
  - unfold narrow128. destruct (fits128 (a * r / D)); intros H; inversion H; reflexivity.
Qed.

(** stake owed to the open batch at the hub's current rates *)
Definition owed_b (h : hub) : N := cb_reqb (h_batch h) * hs_ber (h_state h) / D.
Definition owed_st (h : hub) : N := cb_reqst (h_batch h) * hs_ser (h_state h) / D.
Definition owed (h : hub) : N := owed_b h + owed_st h.

(** the hub after [process_undelegations] at time [now] *)
Definition closed_hub (now : N) (h : hub) : hub :=
  let s := h_state h in
  let cb := h_batch h in
  set_h_state
    (set_h_batch
       (set_h_hist h (hist_put (h_hist h) (cb_id cb)
                        (mkHist now (cb_reqb cb) (hs_ber s) (hs_ber s) (cb_reqst cb) (hs_ser s) (hs_ser s) false)))
       (mkBatch (cb_id cb + 1) 0 0))
    (mkHubState (hs_ber s) (hs_ser s) (hs_bb s - owed_b h) (hs_bst s - owed_st h)
                (hs_lim s) (hs_phb s) now (hs_lpb s)).

Lemma xt_maybe_undelegate_cases w h h' msgs :
  maybe_undelegate w A_hub h = Some (h', msgs) ->
  (e_now (w_env w) - hs_lut (h_state h) <= hp_epoch (h_params h) /\ h' = h /\ msgs = []) \/
  (hp_epoch (h_params h) < e_now (w_env w) - hs_lut (h_state h) /\
   h' = closed_hub (e_now (w_env w)) h /\ pick_validator w A_hub h (owed h) = Some msgs /\
   owed_b h <= hs_bb (h_state h) /\ owed_st h <= hs_bst (h_state h)).
Proof.
  unfold maybe_undelegate, sub64. intros H.
  destruct (hs_lut (h_state h) <=? e_now (w_env w)); [|discriminate]. cbn [bind] in H.
  destruct (hp_epoch (h_params h) <? e_now (w_env w) - hs_lut (h_state h)) eqn:Ep.
  - right. split; [lia|]. unfold process_undelegations in H.
    bind_inv H as su E1. bind_inv H as bu E2. bind_inv H as cl E3. bind_inv H as ms E4.
    bind_inv H as bst E5. bind_inv H as bb E6. bind_inv H as id' E7. inversion H; subst h' msgs. clear H.
    apply xt_mulU_inv in E1, E2. fold (owed_st h) in E1. fold (owed_b h) in E2. subst su bu.
    unfold add128, narrow128 in E3. destruct (fits128 (owed_b h + owed_st h)); inversion E3; subst cl. clear E3.
    unfold sub128 in E5, E6.
    destruct (owed_st h <=? hs_bst (h_state h)) eqn:L1; inversion E5; subst bst.
    destruct (owed_b h <=? hs_bb (h_state h)) eqn:L2; inversion E6; subst bb.
    unfold add64 in E7. destruct (fits64 (cb_id (h_batch h) + 1)); inversion E7; subst id'.
    split; [reflexivity|]. split; [exact E4|]. split; lia.
  - left. inversion H; subst. split; [lia|]. split; reflexivity.
Qed.

Lemma xt_closed_hub_facts now h :
  let h' := closed_hub now h in
  h_cfg h' = h_cfg h /\ h_params h' = h_params h /\ h_wait h' = h_wait h /\
  h_batch h' = mkBatch (cb_id (h_batch h) + 1) 0 0 /\ hs_lut (h_state h') = now /\
  get N.eqb (h_hist h') (cb_id (h_batch h)) =
    Some (mkHist now (cb_reqb (h_batch h)) (hs_ber (h_state h)) (hs_ber (h_state h))
                 (cb_reqst (h_batch h)) (hs_ser (h_state h)) (hs_ser (h_state h)) false) /\
  (forall k, k <> cb_id (h_batch h) -> get N.eqb (h_hist h') k = get N.eqb (h_hist h) k) /\
  hs_bb (h_state h') = hs_bb (h_state h) - owed_b h /\ hs_bst (h_state h') = hs_bst (h_state h) - owed_st h.
Proof.
  cbn zeta. unfold closed_hub. cbn [h_cfg h_params h_wait h_batch h_state h_hist set_h_state set_h_batch set_h_hist hs_lut hs_bb hs_bst].
  repeat split; try reflexivity.
  - apply get_hist_put_same.
  - intros k Hk. apply get_hist_put_other. exact Hk.
Qed.

(** the leg: whatever [maybe_undelegate] emits is executed by the staking module *)
Lemma xt_maybe_undelegate_exec W w h h' msgs :
  maybe_undelegate w A_hub h = Some (h', msgs) -> hp_underlying (h_params h) = usei ->
  w_env W = w_env w -> DelWf (w_env w) ->
  exists e',
    Exec W (tag A_hub msgs) (set_env W e') (length msgs) /\ (length msgs <= 12)%nat /\
    DelWf e' /\
    delegated e' A_hub + usum msgs = delegated (w_env w) A_hub /\
    e_unb e' = e_unb (w_env w) ++ map (unb_entry (e_now (w_env w) + e_ut (w_env w))) msgs /\
    e_now e' = e_now (w_env w) /\ e_ut e' = e_ut (w_env w) /\
    e_wdaddr e' = e_wdaddr (w_env w) /\ e_noredel e' = e_noredel (w_env w) /\
    (forall y, y <> A_hub -> all_delegations e' y = all_delegations (w_env w) y) /\
    (forall a d, a <> withdraw_addr (w_env w) A_hub -> bal e' a d = bal (w_env w) a d) /\
    (forall a d, bal (w_env w) a d <= bal e' a d) /\
    ((e_now (w_env w) - hs_lut (h_state h) <= hp_epoch (h_params h) /\ h' = h /\ msgs = [] /\ e' = w_env w) \/
     (hp_epoch (h_params h) < e_now (w_env w) - hs_lut (h_state h) /\
      h' = closed_hub (e_now (w_env w)) h /\ usum msgs = owed h /\
      owed_b h <= hs_bb (h_state h) /\ owed_st h <= hs_bst (h_state h))).
Proof.
  intros H Hu HeW Hwf. destruct (xt_maybe_undelegate_cases _ _ _ _ H) as [(Hep & -> & ->) | (Hep & -> & Hp & L1 & L2)].
  - exists (w_env w). cbn [tag map length usum umsg_amt sumN]. rewrite <- HeW, xt_set_env_same.
    split; [constructor|]. split; [lia|]. rewrite HeW. split; [exact Hwf|]. rewrite app_nil_r.
    unfold usum. cbn [map sumN]. repeat split; try reflexivity; try lia. left. repeat split; try reflexivity. exact Hep.
  - destruct (xt_pick_validator_exec W w h (owed h) msgs Hp Hu HeW Hwf) as
        (e' & X & Hlen & R1 & R2 & Hus & R3 & R4 & R5 & R6 & R7 & R8 & R9 & R10).
    exists e'. rewrite Hus. repeat (split; [assumption|]). right. repeat split; assumption.
Qed.

(** ** 4. the hub's premises only look at the environment, the hub and the token SUPPLIES *)
Lemma xt_slashing_ext w w' self h :
  w_env w' = w_env w -> (forall a, query_total_supply w' a = query_total_supply w a) ->
  slashing w' self h = slashing w self h.
Proof.
  intros He Hq. unfold slashing, query_actual_state, actual_bonded, hub_bsei_supply, hub_stsei_supply.
  rewrite He. destruct (hc_bsei (h_cfg h)) as [ab|]; destruct (hc_stsei (h_cfg h)) as [ast|]; cbn [bind];
    rewrite ?Hq; reflexivity.
Qed.

Lemma xt_qts_stsei w ts ts1 : w_stsei w = Some ts -> tk_supply ts1 = tk_supply ts ->
  forall a, query_total_supply (set_stsei w ts1) a = query_total_supply w a.
Proof.
  intros Hs Hsup a. unfold query_total_supply, token_at. cbn [w_bsei w_stsei set_stsei].
  destruct (a =? A_bsei); [reflexivity|]. destruct (a =? A_stsei); [|reflexivity].
  rewrite Hs. cbn [bind]. rewrite Hsup. reflexivity.
Qed.

Lemma xt_qts_bsei w tb tb1 : w_bsei w = Some tb -> tk_supply tb1 = tk_supply tb ->
  forall a, query_total_supply (set_bsei w tb1) a = query_total_supply w a.
Proof.
  intros Hs Hsup a. unfold query_total_supply, token_at. cbn [w_bsei w_stsei set_bsei].
  destruct (a =? A_bsei); [|reflexivity]. rewrite Hs. cbn [bind]. rewrite Hsup. reflexivity.
Qed.

Lemma xt_Wired_set_stsei w ts1 : Wired w -> tk_hub ts1 = A_hub -> Wired (set_stsei w ts1).
Proof.
  intros HW Ht. apply Wired_inv in HW.
  destruct HW as (h & r & d & g & tb0 & ts0 & E1 & E2 & E3 & E4 & E5 & E6 & W).
  unfold Wired. cbn [w_hub w_reward w_disp w_reg w_bsei w_stsei set_stsei]. rewrite E1, E2, E3, E4, E5.
  tauto.
Qed.

Lemma xt_Wired_set_bsei w tb1 : Wired w -> tk_hub tb1 = A_hub -> Wired (set_bsei w tb1).
Proof.
  intros HW Ht. apply Wired_inv in HW.
  destruct HW as (h & r & d & g & tb0 & ts0 & E1 & E2 & E3 & E4 & E5 & E6 & W).
  unfold Wired. cbn [w_hub w_reward w_disp w_reg w_bsei w_stsei set_bsei]. rewrite E1, E2, E3, E4, E6.
  tauto.
Qed.

Lemma xt_Wired_set_hub w h h' :
  Wired w -> w_hub w = Some h -> h_cfg h' = h_cfg h -> h_params h' = h_params h -> Wired (set_hub w h').
Proof.
  intros HW Hh Hc Hp. apply Wired_inv in HW.
  destruct HW as (h0 & r & d & g & tb0 & ts0 & E1 & E2 & E3 & E4 & E5 & E6 & W).
  rewrite Hh in E1. inversion E1; subst h0.
  unfold Wired. cbn [w_hub w_reward w_disp w_reg w_bsei w_stsei set_hub]. rewrite E2, E3, E4, E5, E6, Hc, Hp.
  tauto.
Qed.

Lemma xt_Wired_set_reward w r r1 : Wired w -> w_reward w = Some r -> rw_hub r1 = rw_hub r -> Wired (set_reward w r1).
Proof.
  intros HW Hr Ht. apply Wired_inv in HW.
  destruct HW as (h & r0 & d & g & tb0 & ts0 & E1 & E2 & E3 & E4 & E5 & E6 & W).
  rewrite Hr in E2. inversion E2; subst r0.
  unfold Wired. cbn [w_hub w_reward w_disp w_reg w_bsei w_stsei set_reward]. rewrite E1, E3, E4, E5, E6.
  rewrite Ht. tauto.
Qed.

(** premises of [unbond_succeeds] in a world that differs only in token balances / the reward contract *)
Definition hub_view_eq (w w' : world) (tb tb' ts ts' : token) : Prop :=
  w_env w' = w_env w /\ w_hub w' = w_hub w /\
  w_bsei w' = Some tb' /\ w_stsei w' = Some ts' /\ w_bsei w = Some tb /\ w_stsei w = Some ts /\
  tk_supply tb' = tk_supply tb /\ tk_supply ts' = tk_supply ts.

Lemma xt_view_qts w w' tb tb' ts ts' : hub_view_eq w w' tb tb' ts ts' ->
  forall a, query_total_supply w' a = query_total_supply w a.
Proof.
  intros (_ & _ & B' & S' & B & S & Eb & Es) a. unfold query_total_supply, token_at.
  rewrite B', S', B, S. destruct (a =? A_bsei); [cbn [bind]; rewrite Eb; reflexivity|].
  destruct (a =? A_stsei); [cbn [bind]; rewrite Es; reflexivity | reflexivity].
Qed.

Lemma xt_view_premises w w' h tb tb' ts ts' :
  hub_view_eq w w' tb tb' ts ts' ->
  E1_exit w h tb ts -> E2_clock w h -> BooksSynced w h -> BackedSynced w h tb ts ->
  E1_exit w' h tb' ts' /\ E2_clock w' h /\ BooksSynced w' h /\ BackedSynced w' h tb' ts' /\
  slashing w' A_hub h = slashing w A_hub h.
Proof.
  intros HV HE1 HE2 HBk HBa. pose proof (xt_view_qts _ _ _ _ _ _ HV) as Hq.
  destruct HV as (He & Hh & B' & S' & B & S & Eb & Es).
  assert (Hsl : slashing w' A_hub h = slashing w A_hub h) by (apply xt_slashing_ext; assumption).
  split; [|split; [|split; [|split]]].
  - unfold E1_exit, claims_b, claims_st in *. rewrite He, Eb, Es. exact HE1.
  - unfold E2_clock in *. rewrite He. exact HE2.
  - intros h1 H1. rewrite He. apply HBk. rewrite <- Hsl. exact H1.
  - intros h1 H1. rewrite Hsl in H1. specialize (HBa h1 H1). unfold Backed, claims_b, claims_st in *.
    rewrite Eb, Es. exact HBa.
  - exact Hsl.
Qed.

(** ** 5. the two Receive{Unbond} handlers, inverted *)

(** the synchronised hub with the stSei request recorded (before the batch is possibly closed) *)
Definition st_requested (h1 : hub) (user : addr) (a : N) : hub :=
  let cb := h_batch h1 in
  let x := wait_of h1 user (cb_id cb) in
  set_h_batch (set_h_wait h1 (set eqbAN (h_wait h1) (user, cb_id cb) (fst x, snd x + a)))
              (mkBatch (cb_id cb) (cb_reqb cb) (cb_reqst cb + a)).

Lemma xt_unbond_stsei_inv w h a user h' out :
  execute_unbond_stsei w h A_hub a user = Some (h', out) ->
  exists h1 msgs tok,
    slashing w A_hub h = Some h1 /\
    maybe_undelegate w A_hub (st_requested h1 user a) = Some (h', msgs) /\
    hc_stsei (h_cfg h') = Some tok /\ out = msgs ++ [burn_msg tok a].
Proof.
  unfold execute_unbond_stsei. intros H. bind_inv H as h1 Hh1. bind_inv H as reqst Hreq.
  bind_inv H as h2 Hh2. bind_inv H as r Hr. destruct r as [h4 msgs]. bind_inv H as tok Htok.
  inversion H; subst h' out. clear H.
  unfold add128, narrow128 in Hreq. destruct (fits128 (cb_reqst (h_batch h1) + a)); inversion Hreq; subst reqst.
  unfold add_wait in Hh2. destruct (wait_of h1 user (cb_id (h_batch h1))) as [x y] eqn:Ew.
  cbn [bind] in Hh2. bind_inv Hh2 as y' Hy'. inversion Hh2; subst h2. clear Hh2.
  unfold add128, narrow128 in Hy'. destruct (fits128 (y + a)); inversion Hy'; subst y'.
  exists h1, msgs, tok. split; [reflexivity|]. split; [|split; [exact Htok | reflexivity]].
  unfold st_requested. rewrite Ew. cbn [fst snd]. exact Hr.
Qed.

(** the peg fee charged on a bSei unbond of [a] by the synchronised hub [h1] (supply [sup]) *)
Definition unbond_fee (h1 : hub) (sup a : N) : N :=
  if hs_ber (h_state h1) <? hp_thr (h_params h1)
  then N.min (a * hp_pegfee (h_params h1) / D) (sup + cb_reqb (h_batch h1) - hs_bb (h_state h1))
  else 0.

(** the synchronised hub with a bSei request of [a] (after fee: [a - fee]) recorded *)
Definition b_requested (h1 : hub) (user : addr) (sup a : N) (ber : N) : hub :=
  let cb := h_batch h1 in
  let x := wait_of h1 user (cb_id cb) in
  let awf := a - unbond_fee h1 sup a in
  set_h_batch
    (set_h_state (set_h_wait h1 (set eqbAN (h_wait h1) (user, cb_id cb) (fst x + awf, snd x)))
                 (set_ber (h_state h1) ber))
    (mkBatch (cb_id cb) (cb_reqb cb + awf) (cb_reqst cb)).

Lemma xt_unbond_bsei_inv w h a user h' out :
  execute_unbond w h A_hub a user = Some (h', out) ->
  exists h1 sup ber msgs tok,
    slashing w A_hub h = Some h1 /\ hub_bsei_supply w h1 = Some sup /\
    unbond_fee h1 sup a <= a /\ a <= sup /\
    exchange_rate (hs_bb (h_state h1)) (sup - a) (cb_reqb (h_batch h1) + (a - unbond_fee h1 sup a)) = Some ber /\
    maybe_undelegate w A_hub (b_requested h1 user sup a ber) = Some (h', msgs) /\
    hc_bsei (h_cfg h') = Some tok /\ out = msgs ++ [burn_msg tok a].
Proof.
  unfold execute_unbond. intros H. bind_inv H as h1 Hh1.
  pose proof (slashing_frame _ _ _ _ Hh1) as (_ & F2 & _).
  bind_inv H as sup Hs. bind_inv H as awf Hawf. bind_inv H as reqb Hreqb.
  bind_inv H as h2 Hh2. bind_inv H as sup' Hs'. bind_inv H as ber Hber.
  bind_inv H as r Hr. destruct r as [h4 msgs]. bind_inv H as tok Htok. inversion H; subst h' out. clear H.
  assert (Hfee : awf = a - unbond_fee h1 sup a /\ unbond_fee h1 sup a <= a).
  { unfold unbond_fee. rewrite F2. destruct (hs_ber (h_state h1) <? hp_thr (h_params h)); [|inversion Hawf; lia].
    bind_inv Hawf as mf Hmf. bind_inv Hawf as c Hc. bind_inv Hawf as rq Hrq.
    apply xt_mulU_inv in Hmf. subst mf.
    unfold add128, narrow128 in Hc. destruct (fits128 (sup + cb_reqb (h_batch h1))); inversion Hc; subst c.
    unfold sub128 in Hrq. destruct (hs_bb (h_state h1) <=? sup + cb_reqb (h_batch h1)); inversion Hrq; subst rq.
    unfold sub128, peg_fee in Hawf.
    destruct (N.min (a * hp_pegfee (h_params h) / D) (sup + cb_reqb (h_batch h1) - hs_bb (h_state h1)) <=? a) eqn:E;
      inversion Hawf. split; [reflexivity | lia]. }
  destruct Hfee as [-> Hfee].
  unfold add128, narrow128 in Hreqb.
  destruct (fits128 (cb_reqb (h_batch h1) + (a - unbond_fee h1 sup a))); inversion Hreqb; subst reqb.
  unfold add_wait in Hh2. destruct (wait_of h1 user (cb_id (h_batch h1))) as [x y] eqn:Ew.
  bind_inv Hh2 as x' Hx'. cbn [bind] in Hh2. inversion Hh2; subst h2. clear Hh2.
  unfold add128, narrow128 in Hx'. destruct (fits128 (x + (a - unbond_fee h1 sup a))); inversion Hx'; subst x'.
  unfold sub128 in Hs'. destruct (a <=? sup) eqn:Ea; inversion Hs'; subst sup'.
  exists h1, sup, ber, msgs, tok. split; [reflexivity|]. split; [exact Hs|]. split; [exact Hfee|].
  split; [lia|]. split; [exact Hber|]. split; [|split; [exact Htok | reflexivity]].
  unfold b_requested. rewrite Ew. cbn [fst snd]. exact Hr.
Qed.

(** ** 6. single steps of the stSei tree *)
Lemma xt_send_stsei w ts user a :
  w_stsei w = Some ts -> TInv ts -> tk_supply ts <= LIM -> 0 < a <= tbal ts user ->
  exists ts1, tok_move ts user A_hub a = Some ts1 /\
    step_msg w user (MWasm A_stsei (WCw20 (CSend A_hub a HkUnbond)) [])
    = Some (set_stsei w ts1, [(A_stsei, m_receive A_hub user a HkUnbond)]).
Proof.
  intros Hs HT HL [Ha0 Ha]. pose proof (holder_le_supply ts A_hub HT) as Hhub. pose proof LIM2_fits as HL2.
  pose proof (holder_le_supply ts user HT) as Husr.
  destruct (tok_move_ok ts user A_hub a Ha) as [ts1 Hm]; [lia|]. exists ts1. split; [exact Hm|].
  rewrite xt_step_wasm, xt_call_stsei, Hs. cbn [bind]. unfold stsei_execute.
  assert (Hz : negb (a =? 0) = true) by (apply negb_true_iff; apply N.eqb_neq; lia). rewrite Hz, Hm.
  reflexivity.
Qed.

Lemma xt_tok_burn_ok t from amt :
  amt <= tbal t from -> amt <= tk_supply t -> exists t', tok_burn_from_acct t from amt = Some t'.
Proof.
  intros H1 H2. unfold tok_burn_from_acct. rewrite sub128_ok by exact H1. cbn [bind tk_supply set_tk_bal].
  rewrite sub128_ok by exact H2. cbn [bind]. eexists; reflexivity.
Qed.

Lemma xt_burn_stsei w ts1 a :
  w_stsei w = Some ts1 -> tk_hub ts1 = A_hub -> 0 < a -> a <= tbal ts1 A_hub -> a <= tk_supply ts1 ->
  exists ts2, tok_burn_from_acct ts1 A_hub a = Some ts2 /\
    step_msg w A_hub (burn_msg A_stsei a) = Some (set_stsei w ts2, [(A_stsei, m_check_slashing A_hub)]).
Proof.
  intros Hs Hhub Ha0 Hb Hsup. destruct (xt_tok_burn_ok ts1 A_hub a Hb Hsup) as [ts2 H2]. exists ts2.
  split; [exact H2|]. unfold burn_msg. rewrite xt_step_wasm, xt_call_stsei, Hs. cbn [bind]. unfold stsei_execute.
  rewrite Hhub. change (A_hub =? A_hub) with true.
  assert (Hz : negb (a =? 0) = true) by (apply negb_true_iff; apply N.eqb_neq; lia). rewrite Hz, H2.
  reflexivity.
Qed.

Lemma xt_paused_static h h' : h_params h' = h_params h -> paused h' = paused h.
Proof. intros H. unfold paused. rewrite H. reflexivity. Qed.

Lemma xt_check_step w h h5 s :
  w_hub w = Some h -> paused h = false -> slashing w A_hub h = Some h5 ->
  step_msg w s (m_check_slashing A_hub) = Some (set_hub w h5, []).
Proof.
  intros Hh Hp Hs. unfold m_check_slashing. rewrite xt_step_wasm, xt_call_hub, Hh. cbn [bind].
  unfold hub_execute. rewrite Hp. cbn [negb]. rewrite Hs. reflexivity.
Qed.

Lemma xt_receive_stsei w h tb ts user a :
  Wired w -> w_hub w = Some h -> w_bsei w = Some tb -> w_stsei w = Some ts ->
  paused h = false -> HPInv h -> E1_exit w h tb ts -> E2_clock w h ->
  BooksSynced w h -> BackedSynced w h tb ts -> 0 < a <= tk_supply ts ->
  exists h' msgs,
    execute_unbond_stsei w h A_hub a user = Some (h', msgs ++ [burn_msg A_stsei a]) /\
    step_msg w A_stsei (m_receive A_hub user a HkUnbond)
    = Some (set_hub w h', tag A_hub (msgs ++ [burn_msg A_stsei a])).
Proof.
  intros HWd Hh Hb Hs Hp HPI HE1 HE2 HBk HBa [Ha0 Ha].
  destruct (unbond_succeeds w h tb ts user a [] HWd Hh Hb Hs Hp HPI HE1 HE2 HBk HBa Ha0) as [Hst _].
  destruct (Hst Ha) as (h' & msgs & Hex). exists h', msgs.
  pose proof (Wired_hub _ _ _ _ HWd Hh Hb Hs) as HW.
  destruct (receive_unbond_unfold w h tb ts user a HW) as [Rs _].
  assert (Hex' := Hex). unfold hub_execute in Hex'. rewrite Hp in Hex'. cbn [negb] in Hex'. rewrite Rs in Hex'.
  split; [exact Hex'|].
  unfold m_receive. rewrite xt_step_wasm, xt_call_hub, Hh. cbn [bind]. rewrite Hex. reflexivity.
Qed.

Lemma xt_receive_bsei w h tb ts user a :
  Wired w -> w_hub w = Some h -> w_bsei w = Some tb -> w_stsei w = Some ts ->
  paused h = false -> HPInv h -> E1_exit w h tb ts -> E2_clock w h ->
  BooksSynced w h -> BackedSynced w h tb ts -> 0 < a <= tk_supply tb ->
  exists h' msgs,
    execute_unbond w h A_hub a user = Some (h', msgs ++ [burn_msg A_bsei a]) /\
    step_msg w A_bsei (m_receive A_hub user a HkUnbond)
    = Some (set_hub w h', tag A_hub (msgs ++ [burn_msg A_bsei a])).
Proof.
  intros HWd Hh Hb Hs Hp HPI HE1 HE2 HBk HBa [Ha0 Ha].
  destruct (unbond_succeeds w h tb ts user a [] HWd Hh Hb Hs Hp HPI HE1 HE2 HBk HBa Ha0) as [_ Hbs].
  destruct (Hbs Ha) as (h' & msgs & Hex). exists h', msgs.
  pose proof (Wired_hub _ _ _ _ HWd Hh Hb Hs) as HW.
  destruct (receive_unbond_unfold w h tb ts user a HW) as [_ Rb].
  assert (Hex' := Hex). unfold hub_execute in Hex'. rewrite Hp in Hex'. cbn [negb] in Hex'. rewrite Rb in Hex'.
  split; [exact Hex'|].
  unfold m_receive. rewrite xt_step_wasm, xt_call_hub, Hh. cbn [bind]. rewrite Hex. reflexivity.
Qed.

(** ** 7. outcome vocabulary *)

(** between [e] and [e'] the staking module executed Undelegate messages of the hub worth [U] in total:
    the hub's delegated stake fell by exactly [U] and one unbonding entry per message was appended
    (completion time = now + chain unbonding time) *)
Definition Undelegated (e e' : env) (U : N) : Prop :=
  delegated e' A_hub + U = delegated e A_hub /\
  exists und, usum und = U /\
    Forall (fun m => exists v x, m = MUndelegate v (usei, x) /\ 0 < x) und /\
    e_unb e' = e_unb e ++ map (unb_entry (e_now e + e_ut e)) und.

(** everything else the undelegations may do to the environment: nothing, except that reward payouts
    credit the hub's withdraw address *)
Definition UndelegationFrame (e e' : env) : Prop :=
  DelWf e' /\ e_now e' = e_now e /\ e_ut e' = e_ut e /\ e_wdaddr e' = e_wdaddr e /\
  e_noredel e' = e_noredel e /\
  (forall y, y <> A_hub -> all_delegations e' y = all_delegations e y) /\
  (forall a d, a <> withdraw_addr e A_hub -> bal e' a d = bal e a d) /\
  (forall a d, bal e a d <= bal e' a d).

(** the hub after the Receive hook: the request recorded in the synchronised hub [hq], and the batch
    closed if the epoch period has passed since the last undelegation *)
Definition epoch_over (w : world) (h : hub) : bool :=
  hp_epoch (h_params h) <? e_now (w_env w) - hs_lut (h_state h).
Definition after_receive (w : world) (h hq : hub) : hub :=
  if epoch_over w h then closed_hub (e_now (w_env w)) hq else hq.

Lemma xt_und_msgs_shape w h h' msgs :
  maybe_undelegate w A_hub h = Some (h', msgs) -> hp_underlying (h_params h) = usei ->
  Forall (fun m => exists v x, m = MUndelegate v (usei, x) /\ 0 < x) msgs.
Proof.
  intros H Hu. apply maybe_undelegate_books in H. destruct H as (_ & _ & _ & H).
  apply Forall_forall. intros m Hi. destruct (H m Hi) as (v & x & -> & Hx & _). rewrite Hu. eauto.
Qed.

(** common part of both trees: from the world in which the Receive hook has just run, the emitted
    Undelegate messages execute *)
Lemma xt_und_leg w1 hq h4 msgs :
  maybe_undelegate w1 A_hub hq = Some (h4, msgs) -> hp_underlying (h_params hq) = usei ->
  DelWf (w_env w1) ->
  forall h0, hp_epoch (h_params hq) = hp_epoch (h_params h0) -> hs_lut (h_state hq) = hs_lut (h_state h0) ->
  exists e3,
    Exec (set_hub w1 h4) (tag A_hub msgs) (set_env (set_hub w1 h4) e3) (length msgs) /\
    (length msgs <= 12)%nat /\
    h4 = after_receive w1 h0 hq /\
    Undelegated (w_env w1) e3 (if epoch_over w1 h0 then owed hq else 0) /\
    UndelegationFrame (w_env w1) e3 /\
    (epoch_over w1 h0 = false -> e3 = w_env w1) /\
    (epoch_over w1 h0 = true -> owed_b hq <= hs_bb (h_state hq) /\ owed_st hq <= hs_bst (h_state hq)).
Proof.
  intros Hmu Hu Hwf h0 Hep Hlut.
  destruct (xt_maybe_undelegate_exec (set_hub w1 h4) w1 hq h4 msgs Hmu Hu eq_refl Hwf) as
      (e3 & X & Hlen & R1 & R2 & R3 & R4 & R5 & R6 & R7 & R8 & R9 & R10 & Hcase).
  pose proof (xt_und_msgs_shape _ _ _ _ Hmu Hu) as Hshape.
  exists e3. split; [exact X|]. split; [exact Hlen|].
  unfold after_receive, epoch_over. rewrite <- Hep, <- Hlut.
  destruct Hcase as [(C1 & C2 & C3 & C4) | (C1 & C2 & C3 & C4 & C5)].
  - assert (E : (hp_epoch (h_params hq) <? e_now (w_env w1) - hs_lut (h_state hq)) = false) by lia.
    rewrite E. subst msgs. split; [exact C2|]. split.
    { split; [exact R2|]. exists []. split; [reflexivity|]. split; [constructor|exact R3]. }
    split; [exact (conj R1 (conj R4 (conj R5 (conj R6 (conj R7 (conj R8 (conj R9 R10)))))))|].
    split; [intros _; exact C4 | discriminate].
  - assert (E : (hp_epoch (h_params hq) <? e_now (w_env w1) - hs_lut (h_state hq)) = true) by lia.
    rewrite E. split; [exact C2|]. split.
    { split; [rewrite <- C3; exact R2|]. exists msgs. split; [exact C3|]. split; [exact Hshape | exact R3]. }
    split; [exact (conj R1 (conj R4 (conj R5 (conj R6 (conj R7 (conj R8 (conj R9 R10)))))))|].
    split; [discriminate | intros _; split; assumption].
Qed.

Lemma xt_after_receive_bounds w h0 hq :
  (epoch_over w h0 = true -> owed_b hq <= hs_bb (h_state hq) /\ owed_st hq <= hs_bst (h_state hq)) ->
  let h4 := after_receive w h0 hq in
  booked h4 + (if epoch_over w h0 then owed hq else 0) = booked hq /\
  cb_reqb (h_batch h4) <= cb_reqb (h_batch hq) /\ cb_reqst (h_batch h4) <= cb_reqst (h_batch hq) /\
  h_cfg h4 = h_cfg hq /\ h_params h4 = h_params hq /\ h_wait h4 = h_wait hq.
Proof.
  intros Hb. cbn zeta. unfold after_receive. destruct (epoch_over w h0).
  - destruct (Hb eq_refl) as [B1 B2]. unfold booked, closed_hub, owed.
    cbn [h_state h_batch h_cfg h_params h_wait set_h_state set_h_batch set_h_hist hs_bb hs_bst cb_reqb cb_reqst].
    repeat split; try reflexivity; lia.
  - repeat split; try reflexivity; lia.
Qed.

(** ** 8. the whole stSei unbond transaction *)
Definition unbond_root (user tok : addr) (a : N) : addr * cmsg :=
  (user, MWasm tok (WCw20 (CSend A_hub a HkUnbond)) []).

Theorem unbond_tx_stsei_exact w h tb ts user a :
  Wired w -> w_hub w = Some h -> w_bsei w = Some tb -> w_stsei w = Some ts -> TInv ts ->
  paused h = false -> HPInv h -> E1_exit w h tb ts -> E2_clock w h ->
  BooksSynced w h -> BackedSynced w h tb ts -> DelWf (w_env w) ->
  0 < a <= tbal ts user -> user <> A_hub ->
  exists tr hs ts1 ts' h' e',
    run tx_fuel w [unbond_root user A_stsei a] []
      = Some (mkWorld (Some h') (w_reward w) (w_disp w) (w_reg w) (w_bsei w) (Some ts') e', tr) /\
    slashing w A_hub h = Some hs /\
    tok_move ts user A_hub a = Some ts1 /\ tok_burn_from_acct ts1 A_hub a = Some ts' /\
    (let h4 := after_receive w h (st_requested hs user a) in
     slashing (mkWorld (Some h4) (w_reward w) (w_disp w) (w_reg w) (w_bsei w) (Some ts') e') A_hub h4 = Some h' /\
     booked h4 + (if epoch_over w h then owed (st_requested hs user a) else 0) = booked hs) /\
    Undelegated (w_env w) e' (if epoch_over w h then owed (st_requested hs user a) else 0) /\
    UndelegationFrame (w_env w) e' /\
    (epoch_over w h = false -> e' = w_env w).
Proof.
  intros HWd Hh Hb Hs HT Hp HPI HE1 HE2 HBk HBa Hwf [Ha0 Ha] Hne.
  pose proof (Wired_hub _ _ _ _ HWd Hh Hb Hs) as HW.
  pose proof HE1 as (Hdel & Hbk & Hcb & Hcs & Hid & Hwt).
  assert (HsupL : tk_supply ts <= LIM) by (unfold claims_st in Hcs; lia).
  assert (Hthub : tk_hub ts = A_hub).
  { apply Wired_inv in HWd. destruct HWd as (h0 & r0 & d0 & g0 & tb0 & ts0 & _ & _ & _ & _ & _ & E6 & W).
    rewrite Hs in E6. inversion E6; subst ts0. tauto. }
  (* 1. token Send *)
  destruct (xt_send_stsei w ts user a Hs HT HsupL (conj Ha0 Ha)) as (ts1 & Hm & Hstep1).
  pose proof (tok_move_spec _ _ _ _ _ Hm) as (_ & _ & M3 & _ & _ & M6 & M7 & _ & M9).
  destruct (M7 Hne) as [M7a M7b].
  set (w1 := set_stsei w ts1) in *.
  assert (HV : hub_view_eq w w1 tb tb ts ts1) by (unfold hub_view_eq; repeat split; try assumption; reflexivity).
  destruct (xt_view_premises w w1 h tb tb ts ts1 HV HE1 HE2 HBk HBa) as (HE1' & HE2' & HBk' & HBa' & Hsl).
  assert (HWd1 : Wired w1) by (apply xt_Wired_set_stsei; [exact HWd | congruence]).
  pose proof (holder_le_supply ts user HT) as Husr.
  (* 2. hub Receive *)
  destruct (xt_receive_stsei w1 h tb ts1 user a HWd1 Hh Hb eq_refl Hp HPI HE1' HE2' HBk' HBa') as
      (h4 & msgs & Hex & Hstep2); [lia|].
  pose proof (execute_unbond_stsei_static _ _ _ _ _ _ _ Hex) as (St1 & St2 & _ & _).
  destruct (xt_unbond_stsei_inv _ _ _ _ _ _ Hex) as (hs & msgs' & tok & Hs1 & Hmu & _ & Hout).
  apply app_inj_tail in Hout. destruct Hout as [<- _].
  rewrite Hsl in Hs1.
  pose proof (slashing_frame _ _ _ _ Hs1) as (F1 & F2 & F3 & _ & F5 & _).
  pose proof (slashing_lut _ _ _ _ Hs1) as Flut.
  pose proof (slashing_le _ _ _ _ Hs1) as Fle.
  destruct HW as (W1 & W2 & W3 & _ & _).
  set (hq := st_requested hs user a) in *.
  assert (Hu : hp_underlying (h_params hq) = usei) by (unfold hq, st_requested; cbn; rewrite F2; exact W3).
  (* 3. undelegations *)
  destruct (xt_und_leg w1 hq h4 msgs Hmu Hu Hwf h) as (e3 & X3 & Hlen & Hh4 & HU & HF & Hsame & Hob).
  { unfold hq, st_requested. cbn. rewrite F2. reflexivity. }
  { unfold hq, st_requested. cbn. exact Flut. }
  change (epoch_over w1 h) with (epoch_over w h) in *. change (after_receive w1 h hq) with (after_receive w h hq) in Hh4.
  change (w_env w1) with (w_env w) in *.
  pose proof (xt_after_receive_bounds w h hq Hob) as (B1 & B2 & B3 & B4 & B5 & B6). rewrite <- Hh4 in *.
  set (w2 := set_hub w1 h4) in *. set (w3 := set_env w2 e3) in *.
  (* 4. Burn *)
  destruct (xt_burn_stsei w3 ts1 a eq_refl ltac:(congruence) Ha0) as (ts2 & Hb2 & Hstep3); [lia | lia |].
  pose proof (tok_burn_spec _ _ _ _ Hb2) as (_ & _ & _ & T4 & _ & _ & T7 & _).
  set (w4 := set_stsei w3 ts2) in *.
  (* 5. CheckSlashing *)
  assert (Hbq : booked hq = booked hs) by reflexivity.
  assert (Hrb : cb_reqb (h_batch hq) = cb_reqb (h_batch h)) by (unfold hq, st_requested; cbn; rewrite F3; reflexivity).
  assert (Hrs : cb_reqst (h_batch hq) = cb_reqst (h_batch h) + a) by (unfold hq, st_requested; cbn; rewrite F3; reflexivity).
  assert (HW4 : HubWired w4 h4 tb ts2).
  { unfold HubWired. rewrite St1, St2. repeat split; try assumption; reflexivity. }
  destruct HU as [HU1 HU2].
  destruct (slashing_succeeds w4 h4 tb ts2 HW4) as [h5 Hs5].
  { change (w_env w4) with e3. lia. }
  { lia. }
  { unfold claims_b in *. lia. }
  { unfold claims_st in *. lia. }
  assert (Hp4 : paused h4 = false) by (rewrite (xt_paused_static h h4 St2); exact Hp).
  pose proof (xt_check_step w4 h4 h5 A_stsei eq_refl Hp4 Hs5) as Hstep4.
  (* composition *)
  assert (XB : Exec w3 [(A_hub, burn_msg A_stsei a)] (set_hub w4 h5) 2).
  { change 2%nat with (S (1 + 0)). eapply Exec_cons; [exact Hstep3 | apply Exec_leaf; exact Hstep4 | constructor]. }
  assert (XR : Exec w1 [(A_stsei, m_receive A_hub user a HkUnbond)] (set_hub w4 h5) (S ((length msgs + 2) + 0))).
  { eapply Exec_cons; [exact Hstep2 | | constructor]. unfold tag. rewrite map_app. apply (Exec_app _ _ _ _ X3). exact XB. }
  assert (XT : Exec w [unbond_root user A_stsei a] (set_hub w4 h5) (S (S ((length msgs + 2) + 0) + 0))).
  { unfold unbond_root. eapply Exec_cons; [exact Hstep1 | exact XR | constructor]. }
  destruct (Exec_tx _ _ _ _ XT) as [tr Hrun]; [unfold tx_fuel; lia|].
  exists tr, hs, ts1, ts2, h5, e3. split; [exact Hrun|]. split; [exact Hs1|]. split; [exact Hm|]. split; [exact Hb2|].
  fold hq. cbn zeta. rewrite <- Hh4.
  split; [split; [exact Hs5 | rewrite B1; exact Hbq]|].
  split; [exact (conj HU1 HU2)|]. split; [exact HF | exact Hsame].
Qed.

(** the wait list after the request has been recorded *)
Lemma xt_wait_of_set h k v u b :
  wait_of (set_h_wait h (set eqbAN (h_wait h) k v)) u b = if eqbAN (u, b) k then v else wait_of h u b.
Proof.
  unfold wait_of. cbn [h_wait set_h_wait]. destruct (eqbAN (u, b) k) eqn:E.
  - apply eqbNN_eq in E. subst k. rewrite (get_set_same eqbAN); [reflexivity | exact eqbNN_eq].
  - rewrite (get_set_other eqbAN); [reflexivity | exact eqbNN_eq |].
    intros Heq. subst k. unfold eqbAN in E. rewrite (eqb_refl eqbNN eqbNN_eq) in E. discriminate.
Qed.

Lemma xt_wait_of_ext h h' u b : h_wait h' = h_wait h -> wait_of h' u b = wait_of h u b.
Proof. intros H. unfold wait_of. rewrite H. reflexivity. Qed.

(** readable form of [unbond_tx_stsei_exact] *)
Theorem unbond_tx_stsei w h tb ts user a :
  Wired w -> w_hub w = Some h -> w_bsei w = Some tb -> w_stsei w = Some ts -> TInv ts ->
  paused h = false -> HPInv h -> E1_exit w h tb ts -> E2_clock w h ->
  BooksSynced w h -> BackedSynced w h tb ts -> DelWf (w_env w) ->
  0 < a <= tbal ts user -> user <> A_hub ->
  let id := cb_id (h_batch h) in
  exists w' tr h' ts' hs,
    run tx_fuel w [unbond_root user A_stsei a] [] = Some (w', tr) /\
    w_hub w' = Some h' /\ w_stsei w' = Some ts' /\ w_bsei w' = Some tb /\
    w_reward w' = w_reward w /\ w_disp w' = w_disp w /\ w_reg w' = w_reg w /\ Wired w' /\
    (* the token: the user's balance and the supply fell by a; nobody else's balance changed *)
    tbal ts' user = tbal ts user - a /\ tk_supply ts' = tk_supply ts - a /\
    (forall x, x <> user -> tbal ts' x = tbal ts x) /\ TInv ts' /\
    (* the hub: the request is recorded in the batch that was open before the call *)
    wait_of h' user id = (fst (wait_of h user id), snd (wait_of h user id) + a) /\
    (forall u b, (u, b) <> (user, id) -> wait_of h' u b = wait_of h u b) /\
    h_cfg h' = h_cfg h /\ h_params h' = h_params h /\
    slashing w A_hub h = Some hs /\
    (* epoch period not over: the request joins the open batch, the environment is untouched *)
    (epoch_over w h = false ->
       h_batch h' = mkBatch id (cb_reqb (h_batch h)) (cb_reqst (h_batch h) + a) /\
       h_hist h' = h_hist h /\ hs_lut (h_state h') = hs_lut (h_state h) /\
       w_env w' = w_env w /\ booked h' <= booked hs) /\
    (* epoch period over: the batch is closed with every request in it and undelegated *)
    (epoch_over w h = true ->
       exists e U,
         get N.eqb (h_hist h') id = Some e /\ he_time e = e_now (w_env w) /\ he_released e = false /\
         he_bamt e = cb_reqb (h_batch h) /\ he_samt e = cb_reqst (h_batch h) + a /\
         he_bapplied e = hs_ber (h_state hs) /\ he_sapplied e = hs_ser (h_state hs) /\
         U = he_bamt e * he_bapplied e / D + he_samt e * he_sapplied e / D /\
         (forall k, k <> id -> get N.eqb (h_hist h') k = get N.eqb (h_hist h) k) /\
         h_batch h' = mkBatch (id + 1) 0 0 /\ hs_lut (h_state h') = e_now (w_env w) /\
         Undelegated (w_env w) (w_env w') U /\ booked h' + U <= booked hs) /\
    UndelegationFrame (w_env w) (w_env w') /\
    booked h' <= delegated (w_env w') A_hub.
Proof.
  intros HWd Hh Hb Hs HT Hp HPI HE1 HE2 HBk HBa Hwf Ha Hne id.
  destruct (unbond_tx_stsei_exact w h tb ts user a HWd Hh Hb Hs HT Hp HPI HE1 HE2 HBk HBa Hwf Ha Hne) as
      (tr & hs & ts1 & ts' & h' & e' & Hrun & Hs1 & Hm & Hbn & [Hs5 Hbk4] & HU & HF & Hsame).
  pose proof (tok_move_spec _ _ _ _ _ Hm) as (_ & M2 & M3 & _ & _ & M6 & M7 & _ & M9).
  destruct (M7 Hne) as [M7a M7b].
  pose proof (tok_burn_spec _ _ _ _ Hbn) as (T1 & T2 & T3 & T4 & _ & _ & T7 & T8 & T9).
  pose proof (slashing_frame _ _ _ _ Hs1) as (F1 & F2 & F3 & _ & F5 & F6 & _).
  pose proof (slashing_lut _ _ _ _ Hs1) as Flut.
  set (hq := st_requested hs user a) in *. set (h4 := after_receive w h hq) in *.
  pose proof (slashing_frame _ _ _ _ Hs5) as (G1 & G2 & G3 & _ & G5 & G6 & _).
  pose proof (slashing_lut _ _ _ _ Hs5) as Glut. pose proof (slashing_le _ _ _ _ Hs5) as Gle.
  assert (Hw4 : h_wait h4 = h_wait hq /\ h_cfg h4 = h_cfg hq /\ h_params h4 = h_params hq).
  { unfold h4, after_receive. destruct (epoch_over w h); [|tauto]. repeat split. }
  destruct Hw4 as (Hw4 & Hc4 & Hp4).
  assert (Hwq : forall u b, wait_of h' u b =
            if eqbAN (u, b) (user, id) then (fst (wait_of h user id), snd (wait_of h user id) + a) else wait_of h u b).
  { intros u b. rewrite (xt_wait_of_ext h4 h' u b G5), (xt_wait_of_ext hq h4 u b Hw4).
    unfold hq, st_requested. rewrite F3. fold id.
    change (wait_of (set_h_batch ?x _) u b) with (wait_of x u b). rewrite xt_wait_of_set.
    rewrite !(xt_wait_of_ext h hs _ _ F5). reflexivity. }
  exists (mkWorld (Some h') (w_reward w) (w_disp w) (w_reg w) (w_bsei w) (Some ts') e'), tr, h', ts', hs.
  cbn [w_hub w_reward w_disp w_reg w_bsei w_stsei w_env].
  split; [exact Hrun|]. split; [reflexivity|]. split; [reflexivity|]. split; [exact Hb|].
  split; [reflexivity|]. split; [reflexivity|]. split; [reflexivity|].
  split.
  { change (Wired (set_env (set_hub (set_stsei w ts') h') e')). change (Wired (set_hub (set_stsei w ts') h')).
    apply (xt_Wired_set_hub _ h); [|exact Hh|rewrite G1, Hc4; exact F1|rewrite G2, Hp4; exact F2].
    apply xt_Wired_set_stsei; [exact HWd|]. rewrite T7, M6.
    apply Wired_inv in HWd. destruct HWd as (h0 & r0 & d0 & g0 & tb0 & ts0 & _ & _ & _ & _ & _ & E6 & W).
    rewrite Hs in E6. inversion E6; subst ts0. tauto. }
  split; [rewrite T9 by exact Hne; exact M7a|]. split; [rewrite <- M3; lia|].
  split.
  { intros x Hx. destruct (N.eq_dec x A_hub) as [->|Hxh]; [rewrite T8, M7b; lia|].
    rewrite T9 by exact Hxh. apply M9; assumption. }
  split; [unfold TInv in *; lia|].
  split; [rewrite Hwq; unfold eqbAN; rewrite (eqb_refl eqbNN eqbNN_eq); reflexivity|].
  split.
  { intros u b Hub. rewrite Hwq. destruct (eqbAN (u, b) (user, id)) eqn:E; [|reflexivity].
    apply eqbNN_eq in E. contradiction. }
  split; [rewrite G1, Hc4; exact F1|]. split; [rewrite G2, Hp4; exact F2|].
  split; [exact Hs1|].
  destruct HU as [HU1 HU2].
  split; [|split; [|split; [exact HF|]]].
  - intros Hep. rewrite Hep in *. specialize (Hsame eq_refl). subst e'.
    assert (E4 : h4 = hq) by (unfold h4, after_receive; rewrite Hep; reflexivity).
    rewrite G3, G6, Glut, E4. unfold hq, st_requested. cbn [h_batch h_hist h_state set_h_batch set_h_wait].
    rewrite F3, F6, Flut. fold id. repeat split; try reflexivity. rewrite E4 in Gle. exact Gle.
  - intros Hep. rewrite Hep in *.
    assert (E4 : h4 = closed_hub (e_now (w_env w)) hq) by (unfold h4, after_receive; rewrite Hep; reflexivity).
    pose proof (xt_closed_hub_facts (e_now (w_env w)) hq) as (_ & _ & _ & K4 & K5 & K6 & K7 & _).
    cbn zeta in K4, K5, K6, K7. rewrite <- E4 in K4, K5, K6, K7.
    assert (Hidq : cb_id (h_batch hq) = id) by (unfold hq, st_requested; cbn; rewrite F3; reflexivity).
    rewrite Hidq in *.
    eexists. exists (owed hq). rewrite G6. split; [exact K6|]. cbn [he_time he_released he_bamt he_samt he_bapplied he_sapplied].
    unfold hq at 1 2 3 4, st_requested. cbn [h_batch h_state set_h_batch set_h_wait cb_reqb cb_reqst]. rewrite F3.
    repeat (split; [reflexivity|]).
    split; [intros k Hk; rewrite K7 by exact Hk; unfold hq, st_requested; cbn; rewrite F6; reflexivity|].
    split; [rewrite G3; exact K4|]. split; [rewrite Glut; exact K5|].
    split; [exact (conj HU1 HU2) | lia].
  - specialize (HBk hs Hs1). destruct (epoch_over w h); lia.
Qed.

(** ** 9. the reward contract's mirror updates, explicitly *)

(** E1 for one reward-holder record: the accrued reward (global index - holder index) * balance +
    pending is representable (exactly what [C16_accrual_fits_bound] needs besides the balance bound,
    which follows from [Mirror] and the supply bound) *)
Definition E1_holder (r : reward) (a : addr) : Prop :=
  ho_idx (holder_of r a) <= rw_gi r /\
  (rw_gi r - ho_idx (holder_of r a)) * ho_bal (holder_of r a) + ho_pend (holder_of r a) <= U128MAX.

Lemma xt_E1_holder_fits r a : E1_holder r a -> ho_bal (holder_of r a) <= LIM -> AccrualFits r a.
Proof.
  intros [H1 H2] Hb. apply AccrualFits_bound; [exact H1 | | exact H2].
  pose proof LIM_D_fits. assert (ho_bal (holder_of r a) * D <= LIM * D) by (apply N.mul_le_mono_r; exact Hb). lia.
Qed.

Definition rdec (r : reward) (a : addr) (amt x : N) : reward :=
  let r1 := set_rw_holder r a (mkHolder (ho_bal (holder_of r a) - amt) (rw_gi r) x) in
  set_rw_state r1 (rw_gi r1) (rw_total r - amt) (rw_prev r1).
Definition rinc (r : reward) (a : addr) (amt x : N) : reward :=
  let r1 := set_rw_holder r a (mkHolder (ho_bal (holder_of r a) + amt) (rw_gi r) x) in
  set_rw_state r1 (rw_gi r1) (rw_total r + amt) (rw_prev r1).

Lemma xt_accrued_split r a x : accrued_atomics r a = Some x ->
  exists rw, decimal_rewards (rw_gi r) (ho_idx (holder_of r a)) (ho_bal (holder_of r a)) = Some rw /\
             dec_add_256 rw (ho_pend (holder_of r a)) = Some x /\ x <= U128MAX.
Proof.
  unfold accrued_atomics. intros H. bind_inv H as rw Hrw. exists rw. split; [reflexivity|]. split; [exact H|].
  unfold dec_add_256, narrow128, fits128 in H. destruct (rw + ho_pend (holder_of r a) <=? U128MAX) eqn:E; inversion H. lia.
Qed.

Lemma xt_reward_dec_step w r a amt x :
  w_reward w = Some r -> query_bsei_addr w (rw_hub r) = Some A_bsei ->
  amt <= ho_bal (holder_of r a) -> amt <= rw_total r -> accrued_atomics r a = Some x ->
  step_msg w A_bsei (m_dec A_reward a amt) = Some (set_reward w (rdec r a amt x), []).
Proof.
  intros Hr Hq L1 L2 Hx. destruct (xt_accrued_split _ _ _ Hx) as (rw & D1 & D2 & _).
  unfold m_dec. rewrite xt_step_wasm, xt_call_reward, Hr. cbn [bind reward_execute]. rewrite Hq. cbn [bind].
  rewrite N.eqb_refl. assert (E1 : (amt <=? ho_bal (holder_of r a)) = true) by lia. rewrite E1, D1. cbn [bind].
  rewrite D2. cbn [bind]. rewrite !sub128_ok by assumption. reflexivity.
Qed.

Lemma xt_reward_inc_step w r a amt x :
  w_reward w = Some r -> query_bsei_addr w (rw_hub r) = Some A_bsei ->
  ho_bal (holder_of r a) + amt <= U128MAX -> rw_total r + amt <= U128MAX -> accrued_atomics r a = Some x ->
  step_msg w A_bsei (m_inc A_reward a amt) = Some (set_reward w (rinc r a amt x), []).
Proof.
  intros Hr Hq L1 L2 Hx. destruct (xt_accrued_split _ _ _ Hx) as (rw & D1 & D2 & _).
  unfold m_inc. rewrite xt_step_wasm, xt_call_reward, Hr. cbn [bind reward_execute]. rewrite Hq. cbn [bind].
  rewrite N.eqb_refl, D1. cbn [bind]. rewrite D2. cbn [bind]. rewrite !add128_ok by assumption. reflexivity.
Qed.

Lemma xt_holder_rdec r a amt x b :
  holder_of (rdec r a amt x) b = if b =? a then mkHolder (ho_bal (holder_of r a) - amt) (rw_gi r) x else holder_of r b.
Proof. unfold rdec. cbn zeta. change (holder_of (set_rw_state ?r1 _ _ _) b) with (holder_of r1 b). apply holder_of_set. Qed.

Lemma xt_holder_rinc r a amt x b :
  holder_of (rinc r a amt x) b = if b =? a then mkHolder (ho_bal (holder_of r a) + amt) (rw_gi r) x else holder_of r b.
Proof. unfold rinc. cbn zeta. change (holder_of (set_rw_state ?r1 _ _ _) b) with (holder_of r1 b). apply holder_of_set. Qed.

(** a holder whose index is current accrues nothing new *)
Lemma xt_accrued_fresh r a :
  ho_idx (holder_of r a) = rw_gi r -> ho_bal (holder_of r a) * D <= U128MAX -> ho_pend (holder_of r a) <= U128MAX ->
  accrued_atomics r a = Some (ho_pend (holder_of r a)).
Proof.
  intros Hi Hb Hp. unfold accrued_atomics, decimal_rewards, ratio, dec_sub_256, dec_mul_256, dec_add_256, narrow128, fits128.
  change (1 =? 0) with false. cbv iota. rewrite N.div_1_r.
  assert (E1 : (ho_bal (holder_of r a) * D <=? U128MAX) = true) by lia. rewrite E1. cbn [bind].
  rewrite Hi. rewrite N.leb_refl. cbn [bind]. rewrite N.sub_diag, N.mul_0_l, N.div_0_l by exact D_nz.
  change (0 <=? U128MAX) with true. cbn [bind]. rewrite N.add_0_l.
  assert (E2 : (ho_pend (holder_of r a) <=? U128MAX) = true) by lia. rewrite E2. reflexivity.
Qed.


(** ** 10. single steps of the bSei tree *)
Lemma xt_tk_hub_bsei w tb : Wired w -> w_bsei w = Some tb -> tk_hub tb = A_hub.
Proof.
  intros HW Hb. apply Wired_inv in HW. destruct HW as (h0 & r0 & d0 & g0 & tb0 & ts0 & _ & _ & _ & _ & E5 & _ & W).
  rewrite Hb in E5. inversion E5; subst tb0. tauto.
Qed.

Lemma xt_send_bsei w tb user a :
  Wired w -> w_bsei w = Some tb -> TInv tb -> tk_supply tb <= LIM -> 0 < a <= tbal tb user ->
  exists tb1, tok_move tb user A_hub a = Some tb1 /\
    step_msg w user (MWasm A_bsei (WCw20 (CSend A_hub a HkUnbond)) [])
    = Some (set_bsei w tb1,
            tag A_bsei [m_dec A_reward user a; m_inc A_reward A_hub a; m_receive A_hub user a HkUnbond]).
Proof.
  intros HW Hb HT HL [Ha0 Ha]. pose proof (holder_le_supply tb A_hub HT) as Hhub. pose proof LIM2_fits as HL2.
  pose proof (holder_le_supply tb user HT) as Husr.
  destruct (tok_move_ok tb user A_hub a Ha) as [tb1 Hm]; [lia|]. exists tb1. split; [exact Hm|].
  rewrite xt_step_wasm, xt_call_bsei, Hb. cbn [bind]. unfold bsei_execute.
  rewrite (wired_reward_contract w tb HW Hb). cbn [bind].
  assert (Hz : negb (a =? 0) = true) by (apply negb_true_iff; apply N.eqb_neq; lia). rewrite Hz, Hm.
  reflexivity.
Qed.

Lemma xt_burn_bsei w tb1 a :
  Wired w -> w_bsei w = Some tb1 -> 0 < a -> a <= tbal tb1 A_hub -> a <= tk_supply tb1 ->
  exists tb2, tok_burn_from_acct tb1 A_hub a = Some tb2 /\
    step_msg w A_hub (burn_msg A_bsei a) = Some (set_bsei w tb2, [(A_bsei, m_dec A_reward A_hub a)]).
Proof.
  intros HW Hb Ha0 Hbal Hsup. destruct (xt_tok_burn_ok tb1 A_hub a Hbal Hsup) as [tb2 H2]. exists tb2.
  split; [exact H2|]. unfold burn_msg. rewrite xt_step_wasm, xt_call_bsei, Hb. cbn [bind]. unfold bsei_execute.
  rewrite (wired_reward_contract w tb1 HW Hb). cbn [bind].
  rewrite (xt_tk_hub_bsei w tb1 HW Hb). change (A_hub =? A_hub) with true.
  assert (Hz : negb (a =? 0) = true) by (apply negb_true_iff; apply N.eqb_neq; lia). rewrite Hz, H2.
  reflexivity.
Qed.

Lemma xt_LIM2_D_fits : (LIM + LIM) * D <= U128MAX.
Proof. vm_compute. discriminate. Qed.

(** ** 11. the whole bSei unbond transaction *)
Theorem unbond_tx_bsei_exact w h tb ts r user a :
  Wired w -> Mirror w -> w_hub w = Some h -> w_bsei w = Some tb -> w_stsei w = Some ts ->
  w_reward w = Some r -> TInv tb ->
  paused h = false -> HPInv h -> E1_exit w h tb ts -> E1_holder r user -> E1_holder r A_hub -> E2_clock w h ->
  BooksSynced w h -> BackedSynced w h tb ts -> DelWf (w_env w) ->
  0 < a <= tbal tb user -> user <> A_hub ->
  exists tr hs tb1 tb' xu xh ber e',
    let sup := tk_supply tb in
    let hq := b_requested hs user sup a ber in
    let h' := after_receive w h hq in
    let r' := rdec (rinc (rdec r user a xu) A_hub a xh) A_hub a xh in
    run tx_fuel w [unbond_root user A_bsei a] []
      = Some (mkWorld (Some h') (Some r') (w_disp w) (w_reg w) (Some tb') (w_stsei w) e', tr) /\
    slashing w A_hub h = Some hs /\
    tok_move tb user A_hub a = Some tb1 /\ tok_burn_from_acct tb1 A_hub a = Some tb' /\
    accrued_atomics r user = Some xu /\ accrued_atomics r A_hub = Some xh /\
    exchange_rate (hs_bb (h_state hs)) (sup - a) (cb_reqb (h_batch hs) + (a - unbond_fee hs sup a)) = Some ber /\
    unbond_fee hs sup a <= a /\
    booked h' + (if epoch_over w h then owed hq else 0) = booked hs /\
    Undelegated (w_env w) e' (if epoch_over w h then owed hq else 0) /\
    UndelegationFrame (w_env w) e' /\
    (epoch_over w h = false -> e' = w_env w).
Proof.
  intros HWd HM Hh Hb Hs Hr HT Hp HPI HE1 HEu HEh HE2 HBk HBa Hwf [Ha0 Ha] Hne.
  pose proof (Wired_hub _ _ _ _ HWd Hh Hb Hs) as HW.
  pose proof HE1 as (Hdel & Hbk & Hcb & Hcs & Hid & Hwt).
  assert (HsupL : tk_supply tb <= LIM) by (unfold claims_b in Hcb; lia).
  destruct (HM tb r Hb Hr) as [Mb Mt].
  pose proof (holder_le_supply tb user HT) as Husr. pose proof (holder_le_supply tb A_hub HT) as Hhubs.
  pose proof LIM_fits as HLf. pose proof LIM2_fits as HL2. pose proof xt_LIM2_D_fits as HL2D.
  (* 1. token Send *)
  destruct (xt_send_bsei w tb user a HWd Hb HT HsupL (conj Ha0 Ha)) as (tb1 & Hm & Hstep1).
  pose proof (tok_move_spec _ _ _ _ _ Hm) as (_ & _ & M3 & _ & _ & M6 & M7 & _ & M9).
  destruct (M7 Hne) as [M7a M7b].
  set (w1 := set_bsei w tb1) in *.
  assert (Hthub1 : tk_hub tb1 = A_hub) by (rewrite M6; exact (xt_tk_hub_bsei w tb HWd Hb)).
  (* 2. reward DecreaseBalance(user) *)
  destruct (xt_E1_holder_fits r user HEu) as [xu Hxu]; [rewrite Mb; lia|].
  destruct (xt_E1_holder_fits r A_hub HEh) as [xh Hxh]; [rewrite Mb; lia|].
  assert (Hq1 : query_bsei_addr w1 (rw_hub r) = Some A_bsei) by (apply (wired_query_bsei w w1 r HWd Hr); reflexivity).
  pose proof (xt_reward_dec_step w1 r user a xu Hr Hq1 ltac:(rewrite Mb; lia) ltac:(lia) Hxu) as Hstep2.
  set (r1 := rdec r user a xu) in *. set (w2 := set_reward w1 r1) in *.
  (* 3. reward IncreaseBalance(hub) *)
  assert (Hh1 : holder_of r1 A_hub = holder_of r A_hub).
  { unfold r1. rewrite xt_holder_rdec. assert (E : (A_hub =? user) = false) by lia. rewrite E. reflexivity. }
  assert (Hxh1 : accrued_atomics r1 A_hub = Some xh).
  { unfold accrued_atomics. rewrite Hh1. exact Hxh. }
  assert (Hq2 : query_bsei_addr w2 (rw_hub r1) = Some A_bsei) by (apply (wired_query_bsei w w2 r HWd Hr); reflexivity).
  pose proof (xt_reward_inc_step w2 r1 A_hub a xh eq_refl Hq2) as Hstep3.
  rewrite Hh1 in Hstep3. specialize (Hstep3 ltac:(rewrite Mb; lia) ltac:(unfold r1, rdec; cbn; lia) Hxh1).
  set (r2 := rinc r1 A_hub a xh) in *. set (w3 := set_reward w2 r2) in *.
  (* 4. hub Receive *)
  assert (HV : hub_view_eq w w3 tb tb1 ts ts) by (unfold hub_view_eq; repeat split; try assumption; reflexivity).
  destruct (xt_view_premises w w3 h tb tb1 ts ts HV HE1 HE2 HBk HBa) as (HE1' & HE2' & HBk' & HBa' & Hsl).
  assert (HWd3 : Wired w3).
  { apply (xt_Wired_set_reward w2 r1 r2); [|reflexivity|reflexivity].
    apply (xt_Wired_set_reward w1 r r1); [|exact Hr|reflexivity].
    apply xt_Wired_set_bsei; assumption. }
  destruct (xt_receive_bsei w3 h tb1 ts user a HWd3 Hh eq_refl Hs Hp HPI HE1' HE2' HBk' HBa') as
      (h4 & msgs & Hex & Hstep4); [lia|].
  pose proof (execute_unbond_static _ _ _ _ _ _ _ Hex) as (St1 & St2 & _ & _).
  destruct (xt_unbond_bsei_inv _ _ _ _ _ _ Hex) as (hs & sup & ber & msgs' & tok & Hs1 & Hsup & Hfee & Hasup & Hber & Hmu & _ & Hout).
  apply app_inj_tail in Hout. destruct Hout as [<- _].
  rewrite Hsl in Hs1.
  pose proof (slashing_frame _ _ _ _ Hs1) as (F1 & F2 & F3 & _ & F5 & _).
  pose proof (slashing_lut _ _ _ _ Hs1) as Flut.
  destruct HW as (W1 & W2 & W3 & _ & _).
  assert (Esup : sup = tk_supply tb).
  { unfold hub_bsei_supply in Hsup. rewrite F1, W1 in Hsup. cbn [bind] in Hsup.
    unfold query_total_supply, token_at in Hsup. change (A_bsei =? A_bsei) with true in Hsup.
    cbn [w_bsei w3 w2 w1 set_reward set_bsei bind] in Hsup. inversion Hsup. exact M3. }
  subst sup.
  set (hq := b_requested hs user (tk_supply tb) a ber) in *.
  assert (Hu : hp_underlying (h_params hq) = usei) by (unfold hq, b_requested; cbn; rewrite F2; exact W3).
  (* 5. undelegations *)
  destruct (xt_und_leg w3 hq h4 msgs Hmu Hu Hwf h) as (e3 & X5 & Hlen & Hh4 & HU & HF & Hsame & Hob).
  { unfold hq, b_requested. cbn. rewrite F2. reflexivity. }
  { unfold hq, b_requested. cbn. exact Flut. }
  change (epoch_over w3 h) with (epoch_over w h) in *. change (after_receive w3 h hq) with (after_receive w h hq) in Hh4.
  change (w_env w3) with (w_env w) in *.
  pose proof (xt_after_receive_bounds w h hq Hob) as (B1 & _). rewrite <- Hh4 in B1.
  set (w4 := set_hub w3 h4) in *. set (w5 := set_env w4 e3) in *.
  (* 6. Burn *)
  assert (HWd5 : Wired w5) by (exact (xt_Wired_set_hub w3 h h4 HWd3 Hh St1 St2)).
  destruct (xt_burn_bsei w5 tb1 a HWd5 eq_refl Ha0) as (tb2 & Hb2 & Hstep6); [lia | lia |].
  set (w6 := set_bsei w5 tb2) in *.
  (* 7. reward DecreaseBalance(hub) *)
  assert (Hh2 : holder_of r2 A_hub = mkHolder (ho_bal (holder_of r A_hub) + a) (rw_gi r) xh).
  { unfold r2. rewrite xt_holder_rinc, N.eqb_refl, Hh1. reflexivity. }
  destruct (xt_accrued_split _ _ _ Hxh) as (_ & _ & _ & Hxhfit).
  assert (Hxh2 : accrued_atomics r2 A_hub = Some xh).
  { rewrite (xt_accrued_fresh r2 A_hub); rewrite Hh2; cbn [ho_idx ho_bal ho_pend]; try reflexivity; [|exact Hxhfit].
    rewrite Mb. assert (tbal tb A_hub + a <= LIM + LIM) by lia.
    assert ((tbal tb A_hub + a) * D <= (LIM + LIM) * D) by (apply N.mul_le_mono_r; assumption). lia. }
  assert (Hq7 : query_bsei_addr w6 (rw_hub r2) = Some A_bsei) by (apply (wired_query_bsei w5 w6 r2 HWd5); reflexivity).
  pose proof (xt_reward_dec_step w6 r2 A_hub a xh eq_refl Hq7) as Hstep7.
  rewrite Hh2 in Hstep7. cbn [ho_bal] in Hstep7.
  specialize (Hstep7 ltac:(lia) ltac:(unfold r2, rinc, r1, rdec; cbn; lia) Hxh2).
  (* composition *)
  set (w7 := set_reward w6 (rdec r2 A_hub a xh)) in *.
  assert (XB : Exec w5 [(A_hub, burn_msg A_bsei a)] w7 2).
  { change 2%nat with (S (1 + 0)). eapply Exec_cons; [exact Hstep6 | apply Exec_leaf; exact Hstep7 | constructor]. }
  assert (XR : Exec w3 [(A_bsei, m_receive A_hub user a HkUnbond)] w7 (S ((length msgs + 2) + 0))).
  { eapply Exec_cons; [exact Hstep4 | | constructor]. unfold tag. rewrite map_app. apply (Exec_app _ _ _ _ X5). exact XB. }
  assert (XT : Exec w [unbond_root user A_bsei a] w7 (S (S (S (S ((length msgs + 2) + 0)))) + 0)).
  { unfold unbond_root. eapply Exec_cons; [exact Hstep1 | | constructor]. cbn [tag map].
    eapply Exec_leaf_cons; [exact Hstep2|]. eapply Exec_leaf_cons; [exact Hstep3|]. exact XR. }
  destruct (Exec_tx _ _ _ _ XT) as [tr Hrun]; [unfold tx_fuel; lia|].
  exists tr, hs, tb1, tb2, xu, xh, ber, e3. cbn zeta. fold hq. rewrite <- Hh4.
  split; [exact Hrun|]. split; [exact Hs1|]. split; [exact Hm|]. split; [exact Hb2|].
  split; [exact Hxu|]. split; [exact Hxh|]. split; [exact Hber|]. split; [exact Hfee|].
  split; [exact B1|]. split; [exact HU|]. split; [exact HF | exact Hsame].
Qed.

(** readable form of [unbond_tx_bsei_exact] *)
Theorem unbond_tx_bsei w h tb ts r user a :
  Wired w -> Mirror w -> w_hub w = Some h -> w_bsei w = Some tb -> w_stsei w = Some ts ->
  w_reward w = Some r -> TInv tb ->
  paused h = false -> HPInv h -> E1_exit w h tb ts -> E1_holder r user -> E1_holder r A_hub -> E2_clock w h ->
  BooksSynced w h -> BackedSynced w h tb ts -> DelWf (w_env w) ->
  0 < a <= tbal tb user -> user <> A_hub ->
  let id := cb_id (h_batch h) in
  exists w' tr h' tb' r' hs fee,
    run tx_fuel w [unbond_root user A_bsei a] [] = Some (w', tr) /\
    w_hub w' = Some h' /\ w_bsei w' = Some tb' /\ w_reward w' = Some r' /\ w_stsei w' = Some ts /\
    w_disp w' = w_disp w /\ w_reg w' = w_reg w /\ Wired w' /\
    (* the token: the user's balance and the supply fell by a; nobody else's balance changed *)
    tbal tb' user = tbal tb user - a /\ tk_supply tb' = tk_supply tb - a /\
    (forall x, x <> user -> tbal tb' x = tbal tb x) /\ TInv tb' /\
    (* the reward contract followed: same changes, the user's accrued reward was settled first *)
    Mirror w' /\ rw_gi r' = rw_gi r /\ rw_prev r' = rw_prev r /\
    accrued_atomics r user = Some (ho_pend (holder_of r' user)) /\
    (forall x, x <> user -> x <> A_hub -> holder_of r' x = holder_of r x) /\
    accrued_atomics r A_hub = Some (ho_pend (holder_of r' A_hub)) /\
    ho_idx (holder_of r' user) = rw_gi r /\ ho_idx (holder_of r' A_hub) = rw_gi r /\
    (* the hub: the request, less the peg fee, is recorded in the batch that was open before the call *)
    slashing w A_hub h = Some hs /\ fee = unbond_fee hs (tk_supply tb) a /\ fee <= a /\
    wait_of h' user id = (fst (wait_of h user id) + (a - fee), snd (wait_of h user id)) /\
    (forall u b, (u, b) <> (user, id) -> wait_of h' u b = wait_of h u b) /\
    h_cfg h' = h_cfg h /\ h_params h' = h_params h /\
    (* epoch period not over *)
    (epoch_over w h = false ->
       h_batch h' = mkBatch id (cb_reqb (h_batch h) + (a - fee)) (cb_reqst (h_batch h)) /\
       h_hist h' = h_hist h /\ hs_lut (h_state h') = hs_lut (h_state h) /\
       w_env w' = w_env w /\ booked h' = booked hs) /\
    (* epoch period over: the batch is closed with every request in it and undelegated *)
    (epoch_over w h = true ->
       exists e U,
         get N.eqb (h_hist h') id = Some e /\ he_time e = e_now (w_env w) /\ he_released e = false /\
         he_bamt e = cb_reqb (h_batch h) + (a - fee) /\ he_samt e = cb_reqst (h_batch h) /\
         exchange_rate (hs_bb (h_state hs)) (tk_supply tb - a) (he_bamt e) = Some (he_bapplied e) /\
         he_sapplied e = hs_ser (h_state hs) /\
         U = he_bamt e * he_bapplied e / D + he_samt e * he_sapplied e / D /\
         (forall k, k <> id -> get N.eqb (h_hist h') k = get N.eqb (h_hist h) k) /\
         h_batch h' = mkBatch (id + 1) 0 0 /\ hs_lut (h_state h') = e_now (w_env w) /\
         Undelegated (w_env w) (w_env w') U /\ booked h' + U = booked hs) /\
    UndelegationFrame (w_env w) (w_env w') /\
    booked h' <= delegated (w_env w') A_hub.
Proof.
  intros HWd HM Hh Hb Hs Hr HT Hp HPI HE1 HEu HEh HE2 HBk HBa Hwf Ha Hne id.
  destruct (unbond_tx_bsei_exact w h tb ts r user a HWd HM Hh Hb Hs Hr HT Hp HPI HE1 HEu HEh HE2 HBk HBa Hwf Ha Hne) as
      (tr & hs & tb1 & tb' & xu & xh & ber & e' & Hex).
  cbn zeta in Hex. destruct Hex as (Hrun & Hs1 & Hm & Hbn & Hxu & Hxh & Hber & Hfee & Hbk4 & HU & HF & Hsame).
  pose proof (tok_move_spec _ _ _ _ _ Hm) as (_ & M2 & M3 & _ & _ & M6 & M7 & _ & M9).
  destruct (M7 Hne) as [M7a M7b].
  pose proof (tok_burn_spec _ _ _ _ Hbn) as (T1 & T2 & T3 & T4 & _ & _ & T7 & T8 & T9).
  pose proof (slashing_frame _ _ _ _ Hs1) as (F1 & F2 & F3 & _ & F5 & F6 & _).
  pose proof (slashing_lut _ _ _ _ Hs1) as Flut.
  destruct (HM tb r Hb Hr) as [Mb Mt].
  set (fee := unbond_fee hs (tk_supply tb) a) in *.
  set (hq := b_requested hs user (tk_supply tb) a ber) in *. set (h4 := after_receive w h hq) in *.
  set (r' := rdec (rinc (rdec r user a xu) A_hub a xh) A_hub a xh) in *.
  assert (Hw4 : h_wait h4 = h_wait hq /\ h_cfg h4 = h_cfg hq /\ h_params h4 = h_params hq).
  { unfold h4, after_receive. destruct (epoch_over w h); [|tauto]. repeat split. }
  destruct Hw4 as (Hw4 & Hc4 & Hp4).
  assert (Hwq : forall u b, wait_of h4 u b =
            if eqbAN (u, b) (user, id) then (fst (wait_of h user id) + (a - fee), snd (wait_of h user id)) else wait_of h u b).
  { intros u b. rewrite (xt_wait_of_ext hq h4 u b Hw4).
    unfold hq, b_requested. rewrite F3. fold id. fold fee.
    change (wait_of (set_h_batch (set_h_state ?x _) _) u b) with (wait_of x u b). rewrite xt_wait_of_set.
    rewrite !(xt_wait_of_ext h hs _ _ F5). reflexivity. }
  assert (Hru : holder_of r' user = mkHolder (ho_bal (holder_of r user) - a) (rw_gi r) xu).
  { assert (E : (user =? A_hub) = false) by lia.
    unfold r'. rewrite xt_holder_rdec, E, xt_holder_rinc, E, xt_holder_rdec, N.eqb_refl. reflexivity. }
  assert (Hrh : holder_of r' A_hub = mkHolder (ho_bal (holder_of r A_hub) + a - a) (rw_gi r) xh).
  { assert (E : (A_hub =? user) = false) by lia.
    unfold r'. rewrite xt_holder_rdec, N.eqb_refl, xt_holder_rinc, N.eqb_refl, xt_holder_rdec, E. reflexivity. }
  assert (Hro : forall x, x <> user -> x <> A_hub -> holder_of r' x = holder_of r x).
  { intros x H1 H2. assert (E1 : (x =? A_hub) = false) by lia. assert (E2 : (x =? user) = false) by lia.
    unfold r'. rewrite xt_holder_rdec, E1, xt_holder_rinc, E1, xt_holder_rdec, E2. reflexivity. }
  assert (Htot : rw_total r' = rw_total r - a + a - a) by reflexivity.
  pose proof (holder_le_supply tb user HT) as Husr.
  set (w' := mkWorld (Some h4) (Some r') (w_disp w) (w_reg w) (Some tb') (w_stsei w) e') in *.
  assert (Hbal : forall x, tbal tb' x = if x =? user then tbal tb user - a else tbal tb x).
  { intros x. destruct (x =? user) eqn:E.
    - apply N.eqb_eq in E. subst x. rewrite T9 by exact Hne. exact M7a.
    - apply N.eqb_neq in E. destruct (N.eq_dec x A_hub) as [->|Hnh]; [rewrite T8, M7b; lia|].
      rewrite T9 by exact Hnh. apply M9; assumption. }
  assert (HWd' : Wired w').
  { change (Wired (set_env (set_hub (set_reward (set_bsei w tb') r') h4) e')).
    change (Wired (set_hub (set_reward (set_bsei w tb') r') h4)).
    apply (xt_Wired_set_hub _ h); [|exact Hh|rewrite Hc4; exact F1|rewrite Hp4; exact F2].
    apply (xt_Wired_set_reward _ r); [|exact Hr|reflexivity].
    apply xt_Wired_set_bsei; [exact HWd|]. rewrite T7, M6. exact (xt_tk_hub_bsei w tb HWd Hb). }
  exists w', tr, h4, tb', r', hs, fee.
  cbn [w' w_hub w_reward w_disp w_reg w_bsei w_stsei w_env].
  split; [exact Hrun|]. split; [reflexivity|]. split; [reflexivity|]. split; [reflexivity|]. split; [exact Hs|].
  split; [reflexivity|]. split; [reflexivity|]. split; [exact HWd'|].
  split; [rewrite Hbal, N.eqb_refl; reflexivity|]. split; [rewrite <- M3; lia|].
  split; [intros x Hx; rewrite Hbal; assert (E : (x =? user) = false) by lia; rewrite E; reflexivity|].
  split; [unfold TInv in *; lia|].
  split.
  { intros tb0 r0 E1 E2. cbn [w' w_bsei w_reward] in E1, E2. inversion E1; inversion E2; subst tb0 r0. split.
    - intros x. rewrite Hbal. destruct (x =? user) eqn:E.
      + apply N.eqb_eq in E. subst x. rewrite Hru. cbn [ho_bal]. rewrite Mb. reflexivity.
      + apply N.eqb_neq in E. destruct (N.eq_dec x A_hub) as [->|Hnh].
        * rewrite Hrh. cbn [ho_bal]. rewrite Mb. lia.
        * rewrite Hro by assumption. apply Mb.
    - rewrite Htot, Mt. lia. }
  split; [reflexivity|]. split; [reflexivity|].
  split; [rewrite Hru; exact Hxu|]. split; [exact Hro|]. split; [rewrite Hrh; exact Hxh|].
  split; [rewrite Hru; reflexivity|]. split; [rewrite Hrh; reflexivity|].
  split; [exact Hs1|]. split; [reflexivity|]. split; [exact Hfee|].
  split; [rewrite Hwq; unfold eqbAN; rewrite (eqb_refl eqbNN eqbNN_eq); reflexivity|].
  split.
  { intros u b Hub. rewrite Hwq. destruct (eqbAN (u, b) (user, id)) eqn:E; [|reflexivity].
    apply eqbNN_eq in E. contradiction. }
  split; [rewrite Hc4; exact F1|]. split; [rewrite Hp4; exact F2|].
  destruct HU as [HU1 HU2].
  split; [|split; [|split; [exact HF|]]].
  - intros Hep. rewrite Hep in *. specialize (Hsame eq_refl). subst e'.
    assert (E4 : h4 = hq) by (unfold h4, after_receive; rewrite Hep; reflexivity).
    rewrite E4. unfold hq, b_requested. cbn [h_batch h_hist h_state set_h_batch set_h_wait set_h_state set_ber set_rates hs_lut].
    rewrite F3, F6, Flut. fold id. fold fee. repeat split; reflexivity.
  - intros Hep. rewrite Hep in *.
    assert (E4 : h4 = closed_hub (e_now (w_env w)) hq) by (unfold h4, after_receive; rewrite Hep; reflexivity).
    pose proof (xt_closed_hub_facts (e_now (w_env w)) hq) as (_ & _ & _ & K4 & K5 & K6 & K7 & _).
    cbn zeta in K4, K5, K6, K7. rewrite <- E4 in K4, K5, K6, K7.
    assert (Hidq : cb_id (h_batch hq) = id) by (unfold hq, b_requested; cbn; rewrite F3; reflexivity).
    rewrite Hidq in *.
    eexists. exists (owed hq). split; [exact K6|]. cbn [he_time he_released he_bamt he_samt he_bapplied he_sapplied].
    unfold hq at 1 2 3 4 5, b_requested.
    cbn [h_batch h_state set_h_batch set_h_wait set_h_state set_ber set_rates cb_reqb cb_reqst hs_ber hs_ser].
    rewrite F3. fold fee.
    split; [reflexivity|]. split; [reflexivity|]. split; [reflexivity|]. split; [reflexivity|].
    split; [rewrite <- F3; exact Hber|]. split; [reflexivity|]. split; [reflexivity|].
    split; [intros k Hk; rewrite K7 by exact Hk; unfold hq, b_requested; cbn; rewrite F6; reflexivity|].
    split; [exact K4|]. split; [exact K5|].
    split; [exact (conj HU1 HU2) | exact Hbk4].
  - specialize (HBk hs Hs1). destruct (epoch_over w h); lia.
Qed.

(** ** 12. what holds after the transaction (premises of the NEXT exit) *)

(** Re-established by the transaction itself: wiring, ledger invariant, not paused, parameter range,
    clock, well-formed delegation table, [Books] (hence [BooksSynced]); the E1 magnitudes of delegated
    stake, booked stake and both claims only decrease.  NOT re-established here: [BackedSynced]
    (exclusion of finding F5, a property of the state reached), the bound on the batch id (it grows by
    at most 1) and on the user's wait-list entry (it grows by the request): those are envelope
    assumptions on the next state. *)
Theorem unbond_tx_stsei_next w h tb ts user a :
  Wired w -> w_hub w = Some h -> w_bsei w = Some tb -> w_stsei w = Some ts -> TInv ts ->
  paused h = false -> HPInv h -> E1_exit w h tb ts -> E2_clock w h ->
  BooksSynced w h -> BackedSynced w h tb ts -> DelWf (w_env w) ->
  0 < a <= tbal ts user -> user <> A_hub ->
  exists w' tr h' ts',
    run tx_fuel w [unbond_root user A_stsei a] [] = Some (w', tr) /\
    w_hub w' = Some h' /\ w_bsei w' = Some tb /\ w_stsei w' = Some ts' /\
    Wired w' /\ TInv ts' /\ paused h' = false /\ HPInv h' /\ E2_clock w' h' /\ DelWf (w_env w') /\
    Books w' /\ BooksSynced w' h' /\
    delegated (w_env w') A_hub <= delegated (w_env w) A_hub /\ booked h' <= booked h /\
    claims_b h' tb <= claims_b h tb /\ claims_st h' ts' <= claims_st h ts /\
    cb_id (h_batch h') <= cb_id (h_batch h) + 1.
Proof.
  intros HWd Hh Hb Hs HT Hp HPI HE1 HE2 HBk HBa Hwf Ha Hne.
  destruct (unbond_tx_stsei w h tb ts user a HWd Hh Hb Hs HT Hp HPI HE1 HE2 HBk HBa Hwf Ha Hne) as
      (w' & tr & h' & ts' & hs & Hrun & Eh & Es & Eb & _ & _ & _ & HWd' & _ & Tsup & _ & HT' & _ & _ & Ec & Ep &
       Hs1 & Hopen & Hclose & HF & Hbooks).
  pose proof (slashing_le _ _ _ _ Hs1) as Hle.
  pose proof (holder_le_supply ts user HT) as Husr.
  destruct HF as (F1 & F2 & _).
  assert (HB' : Books w') by (intros h0 E0; rewrite Eh in E0; inversion E0; subst h0; exact Hbooks).
  exists w', tr, h', ts'. split; [exact Hrun|]. split; [exact Eh|]. split; [exact Eb|]. split; [exact Es|].
  split; [exact HWd'|]. split; [exact HT'|]. split; [rewrite (xt_paused_static h h' Ep); exact Hp|].
  split; [unfold HPInv in *; rewrite Ep; exact HPI|].
  assert (HX : E2_clock w' h' /\ delegated (w_env w') A_hub <= delegated (w_env w) A_hub /\ booked h' <= booked h /\
               claims_b h' tb <= claims_b h tb /\ claims_st h' ts' <= claims_st h ts /\
               cb_id (h_batch h') <= cb_id (h_batch h) + 1).
  { unfold E2_clock, claims_b, claims_st in *. rewrite F2, Tsup. destruct (epoch_over w h) eqn:Ep0.
    - destruct (Hclose eq_refl) as (e & U & _ & _ & _ & _ & _ & _ & _ & _ & _ & K1 & K2 & [K3 _] & K4).
      rewrite K1, K2. cbn [cb_id cb_reqb cb_reqst]. repeat split; lia.
    - destruct (Hopen eq_refl) as (K1 & _ & K2 & K3 & K4). rewrite K1, K2, K3. cbn [cb_id cb_reqb cb_reqst].
      repeat split; lia. }
  destruct HX as (X1 & X2 & X3 & X4 & X5 & X6).
  split; [exact X1|]. split; [exact F1|]. split; [exact HB'|].
  split; [apply (BooksSynced_of_Books w' h' tb ts'); [apply Wired_hub; assumption | exact Eh | exact HB']|].
  repeat split; assumption.
Qed.

Theorem unbond_tx_bsei_next w h tb ts r user a :
  Wired w -> Mirror w -> w_hub w = Some h -> w_bsei w = Some tb -> w_stsei w = Some ts ->
  w_reward w = Some r -> TInv tb ->
  paused h = false -> HPInv h -> E1_exit w h tb ts -> E1_holder r user -> E1_holder r A_hub -> E2_clock w h ->
  BooksSynced w h -> BackedSynced w h tb ts -> DelWf (w_env w) ->
  0 < a <= tbal tb user -> user <> A_hub ->
  exists w' tr h' tb' r',
    run tx_fuel w [unbond_root user A_bsei a] [] = Some (w', tr) /\
    w_hub w' = Some h' /\ w_bsei w' = Some tb' /\ w_stsei w' = Some ts /\ w_reward w' = Some r' /\
    Wired w' /\ Mirror w' /\ TInv tb' /\ paused h' = false /\ HPInv h' /\ E2_clock w' h' /\ DelWf (w_env w') /\
    Books w' /\ BooksSynced w' h' /\ E1_holder r' user /\ E1_holder r' A_hub /\
    delegated (w_env w') A_hub <= delegated (w_env w) A_hub /\ booked h' <= booked h /\
    claims_b h' tb' <= claims_b h tb /\ claims_st h' ts <= claims_st h ts /\
    cb_id (h_batch h') <= cb_id (h_batch h) + 1.
Proof.
  intros HWd HM Hh Hb Hs Hr HT Hp HPI HE1 HEu HEh HE2 HBk HBa Hwf Ha Hne.
  destruct (unbond_tx_bsei w h tb ts r user a HWd HM Hh Hb Hs Hr HT Hp HPI HE1 HEu HEh HE2 HBk HBa Hwf Ha Hne) as
      (w' & tr & h' & tb' & r' & hs & fee & Hrun & Eh & Eb & Er & Es & _ & _ & HWd' & _ & Tsup & _ & HT' &
       HM' & Rgi & _ & Ru & Ro & Rh & Iu & Ih & Hs1 & _ & Hfee & _ & _ & Ec & Ep & Hopen & Hclose & HF & Hbooks).
  pose proof (slashing_le _ _ _ _ Hs1) as Hle.
  pose proof (holder_le_supply tb user HT) as Husr.
  destruct HF as (F1 & F2 & _).
  assert (HB' : Books w') by (intros h0 E0; rewrite Eh in E0; inversion E0; subst h0; exact Hbooks).
  assert (HEx : forall x, accrued_atomics r x = Some (ho_pend (holder_of r' x)) ->
            ho_idx (holder_of r' x) = rw_gi r -> E1_holder r' x).
  { intros x Hacc Hidx. destruct (xt_accrued_split _ _ _ Hacc) as (_ & _ & _ & Hfit).
    unfold E1_holder. rewrite Rgi, Hidx. split; [lia|]. rewrite N.sub_diag, N.mul_0_l. lia. }
  exists w', tr, h', tb', r'. split; [exact Hrun|]. split; [exact Eh|]. split; [exact Eb|]. split; [exact Es|].
  split; [exact Er|]. split; [exact HWd'|]. split; [exact HM'|]. split; [exact HT'|].
  split; [rewrite (xt_paused_static h h' Ep); exact Hp|].
  split; [unfold HPInv in *; rewrite Ep; exact HPI|].
  assert (HX : E2_clock w' h' /\ delegated (w_env w') A_hub <= delegated (w_env w) A_hub /\ booked h' <= booked h /\
               claims_b h' tb' <= claims_b h tb /\ claims_st h' ts <= claims_st h ts /\
               cb_id (h_batch h') <= cb_id (h_batch h) + 1).
  { unfold E2_clock, claims_b, claims_st in *. rewrite F2, Tsup. destruct (epoch_over w h) eqn:Ep0.
    - destruct (Hclose eq_refl) as (e & U & _ & _ & _ & _ & _ & _ & _ & _ & _ & K1 & K2 & [K3 _] & K4).
      rewrite K1, K2. cbn [cb_id cb_reqb cb_reqst]. repeat split; lia.
    - destruct (Hopen eq_refl) as (K1 & _ & K2 & K3 & K4). rewrite K1, K2, K3. cbn [cb_id cb_reqb cb_reqst].
      repeat split; lia. }
  destruct HX as (X1 & X2 & X3 & X4 & X5 & X6).
  split; [exact X1|]. split; [exact F1|]. split; [exact HB'|].
  split; [apply (BooksSynced_of_Books w' h' tb' ts); [apply Wired_hub; assumption | exact Eh | exact HB']|].
  split; [exact (HEx user Ru Iu)|]. split; [exact (HEx A_hub Rh Ih)|].
  repeat split; assumption.
Qed.

(** the outcome flag of the history operation is [true] *)
Corollary unbond_tx_stsei_step w h tb ts user a :
  Wired w -> w_hub w = Some h -> w_bsei w = Some tb -> w_stsei w = Some ts -> TInv ts ->
  paused h = false -> HPInv h -> E1_exit w h tb ts -> E2_clock w h ->
  BooksSynced w h -> BackedSynced w h tb ts -> DelWf (w_env w) ->
  0 < a <= tbal ts user -> user <> A_hub ->
  fst (snd (step w (OTx user A_stsei (WCw20 (CSend A_hub a HkUnbond)) []))) = true.
Proof.
  intros HWd Hh Hb Hs HT Hp HPI HE1 HE2 HBk HBa Hwf Ha Hne.
  destruct (unbond_tx_stsei_exact w h tb ts user a HWd Hh Hb Hs HT Hp HPI HE1 HE2 HBk HBa Hwf Ha Hne) as
      (tr & hs & ts1 & ts' & h' & e' & Hrun & _).
  unfold unbond_root in Hrun. cbn [step]. rewrite Hrun. reflexivity.
Qed.

Corollary unbond_tx_bsei_step w h tb ts r user a :
  Wired w -> Mirror w -> w_hub w = Some h -> w_bsei w = Some tb -> w_stsei w = Some ts ->
  w_reward w = Some r -> TInv tb ->
  paused h = false -> HPInv h -> E1_exit w h tb ts -> E1_holder r user -> E1_holder r A_hub -> E2_clock w h ->
  BooksSynced w h -> BackedSynced w h tb ts -> DelWf (w_env w) ->
  0 < a <= tbal tb user -> user <> A_hub ->
  fst (snd (step w (OTx user A_bsei (WCw20 (CSend A_hub a HkUnbond)) []))) = true.
Proof.
  intros HWd HM Hh Hb Hs Hr HT Hp HPI HE1 HEu HEh HE2 HBk HBa Hwf Ha Hne.
  destruct (unbond_tx_bsei_exact w h tb ts r user a HWd HM Hh Hb Hs Hr HT Hp HPI HE1 HEu HEh HE2 HBk HBa Hwf Ha Hne) as
      (tr & hs & tb1 & tb' & xu & xh & ber & e' & Hex).
  cbn zeta in Hex. destruct Hex as (Hrun & _).
  unfold unbond_root in Hrun. cbn [step]. rewrite Hrun. reflexivity.
Qed.

(** ** 13. non-vacuity: the concrete worlds of Proofs/ExitWorld.v / Proofs/ExitP.v *)

(** a decidable sufficient condition for [Mirror] on concrete states *)
Lemma xt_mirror_decide w tb r :
  w_bsei w = Some tb -> w_reward w = Some r ->
  (rw_total r =? tk_supply tb) = true ->
  forallb (fun kv => ho_bal (holder_of r (fst kv)) =? tbal tb (fst kv)) (tk_bal tb) = true ->
  forallb (fun kv => ho_bal (snd kv) =? tbal tb (fst kv)) (rw_holders r) = true ->
  Mirror w.
Proof.
  intros Hb Hr Ht H1 H2 tb0 r0 E1 E2. rewrite Hb in E1. rewrite Hr in E2. inversion E1; inversion E2; subst tb0 r0.
  split; [|lia]. intros a. rewrite forallb_forall in H1, H2.
  destruct (get eqbA (rw_holders r) a) as [hd|] eqn:G.
  - pose proof (get_In eqbA eqbA_eq _ _ _ G) as Hi. specialize (H2 _ Hi). cbn [fst snd] in H2.
    unfold holder_of. rewrite G. lia.
  - destruct (get eqbA (tk_bal tb) a) as [v|] eqn:G2.
    + pose proof (get_In eqbA eqbA_eq _ _ _ G2) as Hi. specialize (H1 _ Hi). cbn [fst] in H1. lia.
    + unfold holder_of, tbal, getN. rewrite G, G2. reflexivity.
Qed.

Definition reward_of (w : world) : reward :=
  match w_reward w with Some r => r | None => mkReward 0 0 0 0 [] 0 0 0 [] 0 end.

Lemma xt_run_ops_app a b w : run_ops (a ++ b) w = run_ops b (run_ops a w).
Proof. unfold run_ops. apply fold_left_app. Qed.

Lemma xt_DelWf_world1 : DelWf (w_env world1).
Proof.
  unfold world1, world0. rewrite <- xt_run_ops_app. apply (EntWf_reachable 100 (genesis_ops ++ [OAdvance 31])).
Qed.
Lemma xt_DelWf_world0 : DelWf (w_env world0).
Proof. apply (EntWf_reachable 100 genesis_ops). Qed.

Definition hub0 : hub := hub_of world0.
Definition tb0 : token := tok_of (w_bsei world0).
Definition ts0 : token := tok_of (w_stsei world0).

Lemma synced_0 : slashing world0 A_hub hub0 = Some (synced_of world0 hub0).
Proof. vm_compute. reflexivity. Qed.

(** every premise of the two transaction theorems holds in [world1] (epoch over: the unbond closes
    the batch) and in [world0] (epoch not over), for alice's bSei and bob's stSei *)
Lemma xt_premises_world1 :
  Wired world1 /\ Mirror world1 /\ w_hub world1 = Some hub1 /\ w_bsei world1 = Some tb1 /\
  w_stsei world1 = Some ts1 /\ w_reward world1 = Some (reward_of world1) /\ TInv tb1 /\ TInv ts1 /\
  paused hub1 = false /\ HPInv hub1 /\ E1_exit world1 hub1 tb1 ts1 /\
  E1_holder (reward_of world1) alice /\ E1_holder (reward_of world1) A_hub /\ E2_clock world1 hub1 /\
  BooksSynced world1 hub1 /\ BackedSynced world1 hub1 tb1 ts1 /\ DelWf (w_env world1) /\
  epoch_over world1 hub1 = true /\
  tbal tb1 alice = 1000000 /\ tbal ts1 bob = 2000000 /\ alice <> A_hub /\ bob <> A_hub.
Proof.
  destruct unbond_succeeds_nonvacuous as (P1 & P2 & P3 & P4 & P5 & P6 & P7 & P8 & P9 & P10 & _).
  split; [exact P1|]. split.
  { apply (xt_mirror_decide world1 tb1 (reward_of world1)); vm_compute; reflexivity. }
  split; [exact P2|]. split; [exact P3|]. split; [exact P4|]. split; [vm_compute; reflexivity|].
  split; [vm_compute; reflexivity|]. split; [vm_compute; reflexivity|].
  split; [exact P5|]. split; [exact P6|]. split; [exact P7|].
  split; [split; vm_compute; discriminate|]. split; [split; vm_compute; discriminate|].
  split; [exact P8|]. split; [exact P9|]. split; [exact P10|]. split; [exact xt_DelWf_world1|].
  repeat split; try (vm_compute; reflexivity); discriminate.
Qed.

Lemma xt_premises_world0 :
  Wired world0 /\ Mirror world0 /\ w_hub world0 = Some hub0 /\ w_bsei world0 = Some tb0 /\
  w_stsei world0 = Some ts0 /\ w_reward world0 = Some (reward_of world0) /\ TInv tb0 /\ TInv ts0 /\
  paused hub0 = false /\ HPInv hub0 /\ E1_exit world0 hub0 tb0 ts0 /\
  E1_holder (reward_of world0) alice /\ E1_holder (reward_of world0) A_hub /\ E2_clock world0 hub0 /\
  BooksSynced world0 hub0 /\ BackedSynced world0 hub0 tb0 ts0 /\ DelWf (w_env world0) /\
  epoch_over world0 hub0 = false /\
  tbal tb0 alice = 1000000 /\ tbal ts0 bob = 2000000.
Proof.
  split; [vm_compute; repeat split|]. split.
  { apply (xt_mirror_decide world0 tb0 (reward_of world0)); vm_compute; reflexivity. }
  do 6 (split; [vm_compute; reflexivity|]).
  split; [vm_compute; reflexivity|].
  split; [split; vm_compute; discriminate|].
  split.
  { unfold E1_exit. do 5 (split; [vm_compute; discriminate|]).
    intros u. apply (wait_bounded_of_forallb hub0). vm_compute. reflexivity. }
  split; [split; vm_compute; discriminate|]. split; [split; vm_compute; discriminate|].
  split; [vm_compute; discriminate|].
  split; [intros h1 H; rewrite synced_0 in H; apply some_inj in H; subst h1; vm_compute; discriminate|].
  split; [intros h1 H; rewrite synced_0 in H; apply some_inj in H; subst h1; split; intros _; vm_compute; reflexivity|].
  split; [exact xt_DelWf_world0|].
  repeat split; vm_compute; reflexivity.
Qed.

(** the theorems applied: full and partial balances, both tokens, batch closing (world1) and not (world0) *)
Example unbond_tx_examples_by_theorem :
  (forall a, 0 < a <= 2000000 -> exists w' tr h' ts',
     run tx_fuel world1 [unbond_root bob A_stsei a] [] = Some (w', tr) /\
     w_hub w' = Some h' /\ w_stsei w' = Some ts' /\
     tbal ts' bob = 2000000 - a /\ tk_supply ts' = tk_supply ts1 - a /\
     h_batch h' = mkBatch (cb_id (h_batch hub1) + 1) 0 0) /\
  (forall a, 0 < a <= 1000000 -> exists w' tr h' tb',
     run tx_fuel world1 [unbond_root alice A_bsei a] [] = Some (w', tr) /\
     w_hub w' = Some h' /\ w_bsei w' = Some tb' /\ Mirror w' /\
     tbal tb' alice = 1000000 - a /\ tk_supply tb' = tk_supply tb1 - a /\
     h_batch h' = mkBatch (cb_id (h_batch hub1) + 1) 0 0) /\
  (forall a, 0 < a <= 2000000 -> exists w' tr h',
     run tx_fuel world0 [unbond_root bob A_stsei a] [] = Some (w', tr) /\ w_hub w' = Some h' /\
     w_env w' = w_env world0 /\ cb_reqst (h_batch h') = cb_reqst (h_batch hub0) + a) /\
  (forall a, 0 < a <= 1000000 -> exists w' tr h',
     run tx_fuel world0 [unbond_root alice A_bsei a] [] = Some (w', tr) /\ w_hub w' = Some h' /\
     w_env w' = w_env world0 /\ cb_id (h_batch h') = cb_id (h_batch hub0)).
Proof.
  destruct xt_premises_world1 as (A1 & A2 & A3 & A4 & A5 & A6 & A7 & A8 & A9 & A10 & A11 & A12 & A13 & A14 &
                                  A15 & A16 & A17 & A18 & A19 & A20 & A21 & A22).
  destruct xt_premises_world0 as (B1 & B2 & B3 & B4 & B5 & B6 & B7 & B8 & B9 & B10 & B11 & B12 & B13 & B14 &
                                  B15 & B16 & B17 & B18 & B19 & B20).
  split; [|split; [|split]].
  - intros a Ha. rewrite <- A20 in Ha.
    destruct (unbond_tx_stsei world1 hub1 tb1 ts1 bob a A1 A3 A4 A5 A8 A9 A10 A11 A14 A15 A16 A17 Ha A22) as
        (w' & tr & h' & ts' & hs & R1 & R2 & R3 & _ & _ & _ & _ & _ & R4 & R5 & _ & _ & _ & _ & _ & _ & _ & _ & Hc & _).
    destruct (Hc A18) as (e & U & _ & _ & _ & _ & _ & _ & _ & _ & _ & K & _).
    exists w', tr, h', ts'. rewrite A20 in R4. repeat split; assumption.
  - intros a Ha. rewrite <- A19 in Ha.
    destruct (unbond_tx_bsei world1 hub1 tb1 ts1 (reward_of world1) alice a A1 A2 A3 A4 A5 A6 A7 A9 A10 A11 A12 A13
                A14 A15 A16 A17 Ha A21) as
        (w' & tr & h' & tb' & r' & hs & fee & R1 & R2 & R3 & _ & _ & _ & _ & _ & R4 & R5 & _ & _ & RM & R).
    do 15 (destruct R as [_ R]). destruct R as (Hc & _).
    destruct (Hc A18) as (e & U & _ & _ & _ & _ & _ & _ & _ & _ & _ & K & _).
    exists w', tr, h', tb'. rewrite A19 in R4. exact (conj R1 (conj R2 (conj R3 (conj RM (conj R4 (conj R5 K)))))).
  - intros a Ha. rewrite <- B20 in Ha.
    destruct (unbond_tx_stsei world0 hub0 tb0 ts0 bob a B1 B3 B4 B5 B8 B9 B10 B11 B14 B15 B16 B17 Ha ltac:(discriminate)) as
        (w' & tr & h' & ts' & hs & R1 & R2 & R3 & _ & _ & _ & _ & _ & R4 & R5 & _ & _ & _ & _ & _ & _ & _ & Ho & _).
    destruct (Ho B18) as (K1 & _ & _ & K2 & _).
    exists w', tr, h'. rewrite K1. repeat split; assumption.
  - intros a Ha. rewrite <- B19 in Ha.
    destruct (unbond_tx_bsei world0 hub0 tb0 ts0 (reward_of world0) alice a B1 B2 B3 B4 B5 B6 B7 B9 B10 B11 B12 B13
                B14 B15 B16 B17 Ha ltac:(discriminate)) as
        (w' & tr & h' & tb' & r' & hs & fee & R1 & R2 & R3 & _ & _ & _ & _ & _ & R4 & R5 & _ & _ & RM & R).
    do 14 (destruct R as [_ R]). destruct R as (Ho & _).
    destruct (Ho B18) as (K1 & _ & _ & K2 & _).
    exists w', tr, h'. rewrite K1. repeat split; assumption.
Qed.
