(** Extraction of the executable model to OCaml (ExtrOcamlBasic only: bool, option, unit, list,
    prod, sumbool are mapped to the OCaml types; N/positive/nat stay the extracted inductives;
    no Extract Constant). *)
From Krp Require Import Exec.
Require Import ExtrOcamlBasic.
Extraction Language OCaml.
Extraction "model.ml"
  step empty_world run_ops
  hub_query_state hub_query_withdrawable hub_query_history user_waits wait_of
  query_accrued holder_of accrued_atomics
  reg_validators_for_delegation
  all_delegations delegation bal pending withdraw_addr can_redelegate all_balances
  tbal get getN eqbNN eqbA eqbAN
  deleg undeleg ddiv new_withdraw_rate swap_info decimal_rewards
  N.of_nat N.to_nat N.add N.mul N.div N.modulo N.eqb N.leb N.ltb Pos.succ.
