(** * FMap: finite maps as association lists with a boolean key equality.
    [get] returns the first binding, [set] replaces the first binding or appends, [del] removes the
    first binding.  All maps built from [empty] by [set]/[del] have unique keys. *)
From Krp Require Export Prelude.

Section FMap.
  Context {K V : Type}.
  Variable eqb : K -> K -> bool.

  Definition fmap := list (K * V).

  Fixpoint get (m : fmap) (k : K) : option V :=
    match m with
    | [] => None
    | (k', v) :: r => if eqb k k' then Some v else get r k
    end.

  Fixpoint set (m : fmap) (k : K) (v : V) : fmap :=
    match m with
    | [] => [(k, v)]
    | (k', v') :: r => if eqb k k' then (k, v) :: r else (k', v') :: set r k v
    end.

  Fixpoint del (m : fmap) (k : K) : fmap :=
    match m with
    | [] => []
    | (k', v') :: r => if eqb k k' then r else (k', v') :: del r k
    end.

  Definition keys (m : fmap) : list K := map fst m.
End FMap.

Arguments fmap : clear implicits.

(** Key equalities used by the model. *)
Definition eqbNN (a b : N * N) : bool := (fst a =? fst b) && (snd a =? snd b).

Lemma eqbNN_eq a b : eqbNN a b = true <-> a = b.
Proof.
  destruct a as [a1 a2], b as [b1 b2]. unfold eqbNN. cbn [fst snd].
  rewrite andb_true_iff, !N.eqb_eq. split; [intros [-> ->]; reflexivity | intros H; inversion H; auto].
Qed.

(** get with default 0 for N-valued maps *)
Definition getN {K} (eqb : K -> K -> bool) (m : fmap K N) (k : K) : N :=
  match get eqb m k with Some v => v | None => 0 end.

Section Laws.
  Context {K V : Type}.
  Variable eqb : K -> K -> bool.
  Hypothesis eqb_eq : forall a b, eqb a b = true <-> a = b.

  Lemma eqb_refl k : eqb k k = true.
  Proof. apply eqb_eq. reflexivity. Qed.

  Lemma eqb_neq a b : a <> b -> eqb a b = false.
  Proof. intros H. destruct (eqb a b) eqn:E; [apply eqb_eq in E; contradiction | reflexivity]. Qed.

  Lemma get_set_same (m : fmap K V) k v : get eqb (set eqb m k v) k = Some v.
  Proof.
    induction m as [|[k' v'] r IH]; simpl.
    - rewrite eqb_refl. reflexivity.
    - destruct (eqb k k') eqn:E; simpl.
      + rewrite eqb_refl. reflexivity.
      + rewrite E. exact IH.
  Qed.

  Lemma get_set_other (m : fmap K V) k k2 v : k2 <> k -> get eqb (set eqb m k v) k2 = get eqb m k2.
  Proof.
    intros Hne. induction m as [|[k' v'] r IH]; simpl.
    - rewrite (eqb_neq _ _ Hne). reflexivity.
    - destruct (eqb k k') eqn:E; simpl.
      + apply eqb_eq in E. subst k'. rewrite (eqb_neq _ _ Hne). reflexivity.
      + destruct (eqb k2 k'); [reflexivity | exact IH].
  Qed.

  Lemma get_del_other (m : fmap K V) k k2 : k2 <> k -> get eqb (del eqb m k) k2 = get eqb m k2.
  Proof.
    intros Hne. induction m as [|[k' v'] r IH]; simpl; [reflexivity|].
    destruct (eqb k k') eqn:E; simpl.
    - apply eqb_eq in E. subst k'. rewrite (eqb_neq _ _ Hne). reflexivity.
    - destruct (eqb k2 k'); [reflexivity | exact IH].
  Qed.
End Laws.

(** Sum of an N-valued map (by a projection). *)
Definition msum {K V} (f : V -> N) (m : fmap K V) : N := sumN (map (fun kv => f (snd kv)) m).

Section SumLaws.
  Context {K V : Type}.
  Variable eqb : K -> K -> bool.
  Hypothesis eqb_eq : forall a b, eqb a b = true <-> a = b.
  Variable f : V -> N.

  Definition getf (m : fmap K V) k : N := match get eqb m k with Some v => f v | None => 0 end.

  Lemma msum_set (m : fmap K V) k v : msum f (set eqb m k v) + getf m k = msum f m + f v.
  Proof.
    unfold msum, getf. induction m as [|[k' v'] r IH]; simpl.
    - lia.
    - destruct (eqb k k') eqn:E; simpl; [lia|].
      destruct (get eqb r k); lia.
  Qed.

  Lemma msum_del (m : fmap K V) k : msum f (del eqb m k) + getf m k = msum f m.
  Proof.
    unfold msum, getf. induction m as [|[k' v'] r IH]; simpl.
    - lia.
    - destruct (eqb k k') eqn:E; simpl; [lia|].
      destruct (get eqb r k); lia.
  Qed.

  Lemma getf_le_msum (m : fmap K V) k : getf m k <= msum f m.
  Proof. pose proof (msum_del m k). lia. Qed.
End SumLaws.
