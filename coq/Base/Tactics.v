(** Arithmetic automation setup shared by all proof files. *)
From Coq Require Export ZArith NArith Lia ZifyBool ZifyN ZifyNat.
From Krp Require Export Prelude.
Ltac Zify.zify_post_hook ::= Z.div_mod_to_equations.
Global Arguments N.add : simpl never.
Global Arguments N.sub : simpl never.
Global Arguments N.mul : simpl never.
Global Arguments N.div : simpl never.
Global Arguments N.modulo : simpl never.
Global Arguments N.eqb : simpl never.
Global Arguments N.leb : simpl never.
Global Arguments N.ltb : simpl never.
Global Arguments N.min : simpl never.
Global Arguments N.max : simpl never.

(** Inversion of monadic hypotheses [bind m f = Some x] / [check b; k = Some x]. *)
Ltac inv_bind H :=
  match type of H with
  | bind ?m _ = Some _ =>
      let a := fresh "a" in let Ha := fresh "E" in
      destruct m as [a|] eqn:Ha; [cbn [bind] in H | discriminate H]
  | match ?m with Some _ => _ | None => None end = Some _ =>
      let a := fresh "a" in let Ha := fresh "E" in
      destruct m as [a|] eqn:Ha; [|discriminate H]
  | (if ?b then _ else None) = Some _ =>
      let Hb := fresh "E" in destruct b eqn:Hb; [|discriminate H]
  | (if ?b then None else _) = Some _ =>
      let Hb := fresh "E" in destruct b eqn:Hb; [discriminate H|]
  end.

(** Named variants: [bind_inv H as x Hx] for [bind m f = Some _]; [check_inv H as Hb] for an [if]. *)
Tactic Notation "bind_inv" hyp(H) "as" ident(a) ident(Ha) :=
  match type of H with
  | bind ?m _ = Some _ => destruct m as [a|] eqn:Ha; [cbn [bind] in H | discriminate H]
  | match ?m with Some _ => _ | None => None end = Some _ => destruct m as [a|] eqn:Ha; [|discriminate H]
  end.
Tactic Notation "check_inv" hyp(H) "as" ident(Hb) :=
  match type of H with
  | (if ?b then _ else None) = Some _ => destruct b eqn:Hb; [|discriminate H]
  | (if ?b then None else _) = Some _ => destruct b eqn:Hb; [discriminate H|]
  end.

(** Exhaustive inversion of a successful monadic computation [H : ... = Some _]:
    splits every bind / if / match on the way.  Only for goals that are closed by computation
    (frame properties); arithmetic proofs name their intermediate values with [bind_inv]. *)
Ltac inv_step H :=
  lazymatch type of H with
  | Some _ = Some _ => inversion H; subst; clear H
  | None = Some _ => discriminate H
  | bind ?m _ = Some _ =>
      let a := fresh "a" in let E := fresh "E" in
      destruct m as [a|] eqn:E; [cbn [bind] in H | discriminate H]
  | (if ?b then _ else _) = Some _ => let E := fresh "E" in destruct b eqn:E
  | (match ?x with _ => _ end) = Some _ => let E := fresh "E" in destruct x eqn:E
  end.
Ltac inv_all H := repeat (inv_step H).
