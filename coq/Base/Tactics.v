(** Arithmetic automation setup shared by all proof files. *)
From Coq Require Export ZArith NArith Lia ZifyBool ZifyN ZifyNat.
Ltac Zify.zify_post_hook ::= Z.div_mod_to_equations.
Global Arguments N.add : simpl never.
Global Arguments N.sub : simpl never.
Global Arguments N.mul : simpl never.
Global Arguments N.div : simpl never.
Global Arguments N.modulo : simpl never.
Global Arguments N.eqb : simpl never.
Global Arguments N.leb : simpl never.
Global Arguments N.ltb : simpl never.
Global Arguments N.min : simpl never.
Global Arguments N.max : simpl never.
