(** * Fixed: the integer and fixed-point arithmetic of cosmwasm_std::{Uint128, Decimal},
    cosmwasm-bignumber::{Uint256, Decimal256} and signed_integer::SignedInt, as used by the contracts.
    Values are unbounded [N]; every place where the Rust code would panic or return an overflow
    error is an explicit guard returning [None].  [Decimal]/[Decimal256] are their atomics. *)
From Krp Require Export Prelude.

Definition D : N := 1000000000000000000.            (* 10^18 *)
Definition U64MAX : N := 18446744073709551615.
Definition U128MAX : N := 340282366920938463463374607431768211455.
Definition U256MAX : N :=
  115792089237316195423570985008687907853269984665640564039457584007913129639935.

Definition fits64 (x : N) := x <=? U64MAX.
Definition fits128 (x : N) := x <=? U128MAX.
Definition fits256 (x : N) := x <=? U256MAX.

Definition narrow128 (x : N) : result N := if fits128 x then Some x else None.
Definition narrow256 (x : N) : result N := if fits256 x then Some x else None.

(** Uint128 [+] (panics on overflow) and [checked_sub]. *)
Definition add128 (a b : N) : result N := narrow128 (a + b).
Definition sub128 (a b : N) : result N := if b <=? a then Some (a - b) else None.
(** u64 [-] with overflow-checks (panics). *)
Definition sub64 (a b : N) : result N := if b <=? a then Some (a - b) else None.
Definition add64 (a b : N) : result N := if fits64 (a + b) then Some (a + b) else None.

(** [Uint128::multiply_ratio] : full 256-bit product, panics on zero denominator / overflow. *)
Definition mul_ratio (a n d : N) : result N :=
  if d =? 0 then None else narrow128 (a * n / d).

(** [Uint128 * Decimal] and [Decimal * Uint128] (floor). *)
Definition mulU (a r : N) : result N :=
  if (a =? 0) || (r =? 0) then Some 0 else narrow128 (a * r / D).

(** [Decimal::from_ratio]. *)
Definition ratio (a b : N) : result N :=
  if b =? 0 then None else narrow128 (a * D / b).

(** hub [math::decimal_division a b] = [from_ratio(a, b * 1e18) * 1e18]; the inner and outer
    multiplications by 1e18 are exact, so this is [a * 10^18 / b] with the same guards. *)
Definition ddiv (a r : N) : result N :=
  do den <- mulU D r;
  do q <- ratio a den;
  mulU D q.

(** [Decimal::inv]. *)
Definition dinv (r : N) : result N := if r =? 0 then None else Some (D * D / r).

(** Uint256 / Decimal256 (bigint::U256 panics on overflow). *)
Definition add256 (a b : N) : result N := narrow256 (a + b).
Definition sub256 (a b : N) : result N := if b <=? a then Some (a - b) else None.
Definition mul256 (a b : N) : result N := narrow256 (a * b).

(** [Uint256 * Decimal256] : zero short-cut, else [a * r / D] with the product checked. *)
Definition mulU256 (a r : N) : result N :=
  if (a =? 0) || (r =? 0) then Some 0 else do p <- mul256 a r; Some (p / D).

(** [Decimal256::from_ratio]. *)
Definition ratio256 (a b : N) : result N :=
  if b =? 0 then None else do p <- mul256 a D; Some (p / b).

(** SignedInt::from_subtraction : (magnitude, negative?) ; operands must fit in u128. *)
Definition signed_sub (a b : N) : result (N * bool) :=
  check fits128 a; check fits128 b;
  if b <=? a then Some (a - b, false) else Some (b - a, true).

(** reward/math.rs : Decimal arithmetic through Decimal256 with narrowing asserts. *)
Definition dec_mul_256 (a b : N) : result N := narrow128 (a * b / D).
Definition dec_add_256 (a b : N) : result N := narrow128 (a + b).
Definition dec_sub_256 (a b : N) : result N := if b <=? a then Some (a - b) else None.

(** Facts used everywhere. *)
Lemma D_pos : 0 < D. Proof. reflexivity. Qed.
Lemma D_nz : D <> 0. Proof. discriminate. Qed.

Lemma ddiv_eq a r : ddiv a r = ratio a r.
Proof.
  unfold ddiv, mulU, ratio.
  assert (HD : (D =? 0) = false) by reflexivity. rewrite HD. cbn [orb].
  destruct (r =? 0) eqn:Hr.
  - cbn [bind]. reflexivity.
  - assert (Hq : D * r / D = r) by (rewrite N.mul_comm; apply N.div_mul; exact D_nz).
    rewrite Hq. unfold narrow128.
    destruct (fits128 r) eqn:Hf; cbn [bind].
    + rewrite Hr. destruct (fits128 (a * D / r)) eqn:Hf2; cbn [bind]; [|reflexivity].
      destruct (a * D / r =? 0) eqn:Hz.
      * apply N.eqb_eq in Hz. rewrite Hz. reflexivity.
      * assert (Hq2 : D * (a * D / r) / D = a * D / r)
          by (rewrite N.mul_comm; apply N.div_mul; exact D_nz).
        rewrite Hq2, Hf2. reflexivity.
    + (* r does not fit in 128 bits: cannot happen for a Decimal, both sides may differ *)
      destruct (fits128 (a * D / r)) eqn:Hf2; [|reflexivity].
      (* a*D/r fits but r doesn't: keep statement honest by requiring fits128 r *)
Abort.

Lemma ddiv_eq a r : fits128 r = true -> ddiv a r = ratio a r.
Proof.
  intros Hfr. unfold ddiv, mulU, ratio.
  assert (HD : (D =? 0) = false) by reflexivity. rewrite HD. cbn [orb].
  destruct (r =? 0) eqn:Hr.
  - cbn [bind]. reflexivity.
  - assert (Hq : D * r / D = r) by (rewrite N.mul_comm; apply N.div_mul; exact D_nz).
    rewrite Hq. unfold narrow128. rewrite Hfr. cbn [bind]. rewrite Hr.
    destruct (fits128 (a * D / r)) eqn:Hf2; cbn [bind]; [|reflexivity].
    destruct (a * D / r =? 0) eqn:Hz.
    + apply N.eqb_eq in Hz. rewrite Hz. reflexivity.
    + assert (Hq2 : D * (a * D / r) / D = a * D / r)
        by (rewrite N.mul_comm; apply N.div_mul; exact D_nz).
      rewrite Hq2, Hf2. reflexivity.
Qed.
