(** * Prelude: option monad used as the result type of every handler.
    [None] is the single outcome "the call fails" (Rust [Err], [panic!], failed [assert!],
    arithmetic overflow, [unwrap] on [None]); error strings are not modelled. *)
From Coq Require Export NArith List Bool Lia.
Export ListNotations.
Open Scope N_scope.

Definition result (A : Type) : Type := option A.
Definition Ok {A} (a : A) : result A := Some a.
Definition Err {A} : result A := None.

Definition bind {A B} (m : result A) (f : A -> result B) : result B :=
  match m with Some a => f a | None => None end.

Notation "'do' x <- m ; k" := (bind m (fun x => k))
  (at level 200, x pattern, m at level 100, k at level 200, right associativity).
Notation "'check' b ; k" := (if b then k else None)
  (at level 200, b at level 100, k at level 200, right associativity).

Lemma bind_some {A B} (m : result A) (f : A -> result B) b :
  bind m f = Some b -> exists a, m = Some a /\ f a = Some b.
Proof. destruct m as [a|]; simpl; intros H; [eauto | discriminate]. Qed.

Definition is_some {A} (o : option A) : bool := match o with Some _ => true | None => false end.

Fixpoint sumN (l : list N) : N := match l with [] => 0 | x :: r => x + sumN r end.

Lemma sumN_app l1 l2 : sumN (l1 ++ l2) = sumN l1 + sumN l2.
Proof. induction l1 as [|x l1 IH]; simpl; [reflexivity | rewrite IH; lia]. Qed.

(** Monadic map / fold over lists. *)
Fixpoint mapM {A B} (f : A -> result B) (l : list A) : result (list B) :=
  match l with
  | [] => Some []
  | x :: r => do y <- f x; do ys <- mapM f r; Some (y :: ys)
  end.

Fixpoint foldM {A S} (f : S -> A -> result S) (l : list A) (s : S) : result S :=
  match l with
  | [] => Some s
  | x :: r => do s' <- f s x; foldM f r s'
  end.
