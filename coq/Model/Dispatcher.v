(** * Dispatcher: basset_sei_rewards_dispatcher (contract.rs, handler.rs).  No proofs. *)
From Krp Require Export Types Env.

Definition disp_instantiate (sender hubaddr rewardaddr : addr) (std bd : denom) (keeper : addr)
           (rate : N) (swap oracle : addr) (denoms : list denom) : result disp :=
  check rate <=? D;
  Some (mkDisp sender hubaddr rewardaddr std bd keeper rate swap denoms oracle sender).

(** [get_swap_info]: returns (offer denom, offer amount, ask denom) *)
Definition swap_info (std bd : denom) (stb bb rst rb x_b2st x_st2b : N) : result (denom * N * denom) :=
  do conv <- mulU rb x_b2st;
  do total <- add128 rst conv;
  do bonded <- add128 stb bb;
  do share <- mul_ratio total stb bonded;
  if share <? rst then
    do sell <- sub128 rst share; Some (std, sell, bd)
  else
    do buy <- sub128 share rst;
    do bsell <- mulU buy x_st2b;
    Some (bd, bsell, std).

Definition m_swap (swapaddr : addr) (c : coin) (target : denom) (to : option addr) : cmsg :=
  MWasm swapaddr (WSwap (SSwapDenom c target to)) [c].

(** [convert_to_target_denoms] over the dispatcher's balances *)
Fixpoint convert_loop (w : world) (dp : disp) (coins : list coin) (tsei tusd : N) (msgs : list cmsg)
  : result (N * N * list cmsg) :=
  match coins with
  | [] => Some (tsei, tusd, msgs)
  | c :: r =>
      if negb (existsb (N.eqb (fst c)) (dp_denoms dp)) then convert_loop w dp r tsei tusd msgs
      else if fst c =? dp_std dp then
        do t <- add128 tsei (snd c); convert_loop w dp r t tusd msgs
      else if fst c =? dp_bd dp then
        do t <- add128 tusd (snd c); convert_loop w dp r tsei t msgs
      else if negb (snd c =? 0) then
        check dp_swap dp =? A_swap;
        do ret <- swap_simulate (w_env w) c (dp_bd dp);
        do t <- add128 tusd ret;
        convert_loop w dp r tsei t (msgs ++ [m_swap (dp_swap dp) c (dp_bd dp) None])
      else convert_loop w dp r tsei tusd msgs
  end.

Definition set_dp (d : disp) owner hubaddr rewardaddr bd keeper rate swap denoms oracle newowner :=
  mkDisp owner hubaddr rewardaddr (dp_std d) bd keeper rate swap denoms oracle newowner.

Definition disp_execute (w : world) (dp : disp) (self sender : addr) (m : disp_msg)
  : result (disp * list cmsg) :=
  match m with
  | DSwap bb stb =>
      check sender =? dp_hub dp;
      let coins := all_balances (w_env w) self in
      do r <- convert_loop w dp coins 0 0 [];
      let '(tsei, tusd, msgs) := r in
      check dp_oracle dp =? A_oracle;
      do sei2ust <- oracle_rate (w_env w) (dp_std dp) (dp_bd dp);
      do ust2sei <- dinv sei2ust;
      do info <- swap_info (dp_std dp) (dp_bd dp) stb bb tsei tusd ust2sei sei2ust;
      let '(od, oa, ask) := info in
      let msgs' := if oa =? 0 then msgs else msgs ++ [m_swap (dp_swap dp) (od, oa) ask None] in
      Some (dp, msgs')
  | DDispatch =>
      check sender =? dp_hub dp;
      let st := bal (w_env w) self (dp_std dp) in
      let b := bal (w_env w) self (dp_bd dp) in
      do m1 <- (if b =? 0 then Some [] else
                  do k <- mulU b (dp_rate dp);
                  do rest <- sub128 b k;
                  Some [MBank (dp_keeper dp) [(dp_bd dp, k)]; MBank (dp_reward dp) [(dp_bd dp, rest)]]);
      do m2 <- (if st =? 0 then Some [] else
                  do k <- mulU st (dp_rate dp);
                  do rebond <- sub128 st k;
                  Some (MBank (dp_keeper dp) [(dp_std dp, k)] ::
                        (if rebond =? 0 then [] else
                           [MWasm (dp_hub dp) (WHub HBondRewards) [(dp_std dp, rebond)]])));
      Some (dp, m1 ++ m2 ++ [MWasm (dp_reward dp) (WHub (HUpdateGlobal 0)) []])
  | DConfig hubaddr rewardaddr std bd keeper rate =>
      check sender =? dp_owner dp;
      check (match std with Some _ => false | None => true end);
      check (match rate with Some r => r <=? D | None => true end);
      Some (set_dp dp (dp_owner dp)
                          (match hubaddr with Some a => a | None => dp_hub dp end)
                          (match rewardaddr with Some a => a | None => dp_reward dp end)
                          (match bd with Some x => x | None => dp_bd dp end)
                          (match keeper with Some a => a | None => dp_keeper dp end)
                          (match rate with Some x => x | None => dp_rate dp end)
                          (dp_swap dp) (dp_denoms dp) (dp_oracle dp) (dp_newowner dp), [])
  | DSetOwner a =>
      check sender =? dp_owner dp;
      Some (set_dp dp (dp_owner dp) (dp_hub dp) (dp_reward dp) (dp_bd dp) (dp_keeper dp)
                               (dp_rate dp) (dp_swap dp) (dp_denoms dp) (dp_oracle dp) a, [])
  | DAccept =>
      check sender =? dp_newowner dp;
      Some (set_dp dp (dp_newowner dp) (dp_hub dp) (dp_reward dp) (dp_bd dp) (dp_keeper dp)
                               (dp_rate dp) (dp_swap dp) (dp_denoms dp) (dp_oracle dp) (dp_newowner dp), [])
  | DSwapContract a =>
      check dp_owner dp =? sender;
      Some (set_dp dp (dp_owner dp) (dp_hub dp) (dp_reward dp) (dp_bd dp) (dp_keeper dp)
                               (dp_rate dp) a (dp_denoms dp) (dp_oracle dp) (dp_newowner dp), [])
  | DSwapDenom d add =>
      check dp_owner dp =? sender;
      let ds := if add then dp_denoms dp ++ [d] else filter (fun x => negb (x =? d)) (dp_denoms dp) in
      Some (set_dp dp (dp_owner dp) (dp_hub dp) (dp_reward dp) (dp_bd dp) (dp_keeper dp)
                               (dp_rate dp) (dp_swap dp) ds (dp_oracle dp) (dp_newowner dp), [])
  | DOracle a =>
      check dp_owner dp =? sender;
      Some (set_dp dp (dp_owner dp) (dp_hub dp) (dp_reward dp) (dp_bd dp) (dp_keeper dp)
                               (dp_rate dp) (dp_swap dp) (dp_denoms dp) a (dp_newowner dp), [])
  end.
