(** * Hub: basset_sei_hub (contract.rs, bond.rs, unbond.rs, convert.rs, config.rs, state.rs, math.rs)
    and the rate functions of packages/basset/src/hub.rs.  No proofs. *)
From Krp Require Export Types Env Registry Cw20.

(** ** packages/basset/src/hub.rs : State::update_*_exchange_rate *)
Definition exchange_rate (bonded issued requested : N) : result N :=
  do actual_supply <- add128 issued requested;
  if (bonded =? 0) || (actual_supply =? 0) then Some D else ratio bonded actual_supply.

Definition set_rates (s : hub_state) ber ser :=
  mkHubState ber ser (hs_bb s) (hs_bst s) (hs_lim s) (hs_phb s) (hs_lut s) (hs_lpb s).
Definition set_bonded (s : hub_state) bb bst :=
  mkHubState (hs_ber s) (hs_ser s) bb bst (hs_lim s) (hs_phb s) (hs_lut s) (hs_lpb s).
Definition set_ber (s : hub_state) ber := set_rates s ber (hs_ser s).
Definition set_ser (s : hub_state) ser := set_rates s (hs_ber s) ser.

Definition paused (h : hub) : bool := match hp_paused (h_params h) with Some b => b | None => false end.

(** ** instantiate *)
Definition hub_instantiate (sender : addr) (now epoch unbonding pegfee thr : N) (updater : addr)
           (underlying rdenom : denom) : result hub :=
  check pegfee <=? D;
  Some (mkHub (mkHubConfig sender updater None None None None None None)
              (mkHubState D D 0 0 now 0 now 0)
              (mkHubParams epoch underlying unbonding pegfee (N.min thr D) rdenom (Some false))
              (mkBatch 1 0 0) sender [] [] []).

(** ** token supplies as the hub sees them *)
Definition hub_bsei_supply (w : world) (h : hub) : result N :=
  do a <- hc_bsei (h_cfg h); query_total_supply w a.
Definition hub_stsei_supply (w : world) (h : hub) : result N :=
  do a <- hc_stsei (h_cfg h); query_total_supply w a.

(** ** contract.rs : query_actual_state / slashing *)
Definition actual_bonded (w : world) (self : addr) (h : hub) : result N :=
  foldM (fun acc d => add128 acc (snd d))
        (if hp_underlying (h_params h) =? usei then all_delegations (w_env w) self else [])
        0.

Definition query_actual_state (w : world) (self : addr) (h : hub) : result hub_state :=
  let s := h_state h in
  match all_delegations (w_env w) self with
  | [] => Some s
  | _ =>
      do actual <- actual_bonded w self h;
      do state_total <- add128 (hs_bb s) (hs_bst s);
      if state_total =? 0 then Some s
      else
        do bissued <- hub_bsei_supply w h;
        do sissued <- hub_stsei_supply w h;
        let cb := h_batch h in
        do s1 <- (if actual <? state_total then
                    do r <- ratio (hs_bb s) state_total;
                    do bb <- mulU actual r;
                    do bst <- sub128 actual bb;
                    Some (set_bonded s bb bst)
                  else Some s);
        do ber <- exchange_rate (hs_bb s1) bissued (cb_reqb cb);
        do ser <- exchange_rate (hs_bst s1) sissued (cb_reqst cb);
        Some (set_rates s1 ber ser)
  end.

Definition slashing (w : world) (self : addr) (h : hub) : result hub :=
  do s <- query_actual_state w self h; Some (set_h_state h s).

(** ** peg fee *)
Definition peg_fee (max_fee required : N) : N := N.min max_fee required.

(** ** bond.rs *)
Inductive bond_kind := BkB | BkSt | BkRw.

Definition find_payment (underlying : denom) (funds : list coin) : result coin :=
  match filter (fun c => (fst c =? underlying) && negb (snd c =? 0)) funds with
  | c :: _ => Some c
  | [] => None
  end.

Definition validators_for_delegation (w : world) (h : hub) : result (list (val * N)) :=
  do ra <- hc_reg (h_cfg h);
  check ra =? A_reg;
  reg_validators_for_delegation w.

Definition delegate_msgs (vals : list (val * N)) (xs : list N) (d : denom) : list cmsg :=
  flat_map (fun p => if snd p =? 0 then [] else [MDelegate (fst (fst p)) (d, snd p)])
           (combine vals xs).

Definition execute_bond (w : world) (h : hub) (self sender : addr) (funds : list coin) (k : bond_kind)
  : result (hub * list cmsg) :=
  let p := h_params h in
  do dispaddr <- hc_disp (h_cfg h);
  check (match k with BkRw => sender =? dispaddr | _ => true end);
  let cb := h_batch h in
  let requested := match k with BkB => cb_reqb cb | _ => cb_reqst cb end in
  check N.of_nat (length funds) <=? 1;
  do pay <- find_payment (hp_underlying p) funds;
  let payment := snd pay in
  do h1 <- slashing w self h;
  let s := h_state h1 in
  let supply0 := match (match k with BkB => hub_bsei_supply w h1 | _ => hub_stsei_supply w h1 end) with
                 | Some x => x | None => 0 end in
  do mint <- match k with
             | BkB =>
                 do m <- ddiv payment (hs_ber s);
                 if hs_ber s <? hp_thr p then
                   do max_fee <- mulU m (hp_pegfee p);
                   do a1 <- add128 supply0 m;
                   do a2 <- add128 a1 (cb_reqb cb);
                   do b1 <- add128 (hs_bb s) payment;
                   do required <- sub128 a2 b1;
                   sub128 m (peg_fee max_fee required)
                 else Some m
             | BkSt => ddiv payment (hs_ser s)
             | BkRw => Some 0
             end;
  do supply <- add128 supply0 mint;
  do s' <- match k with
           | BkB =>
               do bb <- add128 (hs_bb s) payment;
               do ber <- exchange_rate bb supply requested;
               Some (set_ber (set_bonded s bb (hs_bst s)) ber)
           | BkRw =>
               do bst <- add128 (hs_bst s) payment;
               do ser <- exchange_rate bst supply requested;
               Some (set_ser (set_bonded s (hs_bb s) bst) ser)
           | BkSt =>
               do bst <- add128 (hs_bst s) payment;
               Some (set_bonded s (hs_bb s) bst)
           end;
  let h2 := set_h_state h1 s' in
  do vals <- validators_for_delegation w h2;
  match vals with
  | [] => None
  | _ =>
      do r <- deleg payment (map snd vals);
      let dmsgs := delegate_msgs vals (snd r) (fst pay) in
      match k with
      | BkRw => Some (h2, dmsgs)
      | _ =>
          do tok <- (match k with BkB => hc_bsei (h_cfg h2) | _ => hc_stsei (h_cfg h2) end);
          Some (h2, dmsgs ++ [MWasm tok (WCw20 (CMint sender mint)) []])
      end
  end.

(** ** unbond.rs *)
Definition wait_of (h : hub) (u : addr) (b : N) : N * N :=
  match get eqbAN (h_wait h) (u, b) with Some x => x | None => (0, 0) end.

(** [store_unbond_wait_list] *)
Definition add_wait (h : hub) (u : addr) (b : N) (is_b : bool) (amt : N) : result hub :=
  let '(x, y) := wait_of h u b in
  do x' <- (if is_b then add128 x amt else Some x);
  do y' <- (if is_b then Some y else add128 y amt);
  Some (set_h_wait h (set eqbAN (h_wait h) (u, b) (x', y'))).

(** history kept sorted by ascending id *)
Fixpoint hist_put (m : fmap N hist_entry) (i : N) (e : hist_entry) : fmap N hist_entry :=
  match m with
  | [] => [(i, e)]
  | (j, e') :: r => if i =? j then (i, e) :: r else if i <? j then (i, e) :: m else (j, e') :: hist_put r i e
  end.

(** [pick_validator] *)
Definition pick_validator (w : world) (self : addr) (h : hub) (claim : N) : result (list cmsg) :=
  let vals := sort_desc (all_delegations (w_env w) self) in
  do ys <- undeleg claim (map snd vals);
  Some (flat_map (fun p => if snd p =? 0 then []
                           else [MUndelegate (fst (fst p)) (hp_underlying (h_params h), snd p)])
                 (combine vals ys)).

(** [process_undelegations]: works on the in-memory batch and state *)
Definition process_undelegations (w : world) (self : addr) (h : hub) : result (hub * list cmsg) :=
  let s := h_state h in
  let cb := h_batch h in
  let now := e_now (w_env w) in
  do st_und <- mulU (cb_reqst cb) (hs_ser s);
  do b_und <- mulU (cb_reqb cb) (hs_ber s);
  do claim <- add128 b_und st_und;
  do msgs <- pick_validator w self h claim;
  do bst <- sub128 (hs_bst s) st_und;
  do bb <- sub128 (hs_bb s) b_und;
  let entry := mkHist now (cb_reqb cb) (hs_ber s) (hs_ber s) (cb_reqst cb) (hs_ser s) (hs_ser s) false in
  do id' <- add64 (cb_id cb) 1;
  let s' := mkHubState (hs_ber s) (hs_ser s) bb bst (hs_lim s) (hs_phb s) now (hs_lpb s) in
  Some (set_h_state (set_h_batch (set_h_hist h (hist_put (h_hist h) (cb_id cb) entry)) (mkBatch id' 0 0)) s',
        msgs).

Definition maybe_undelegate (w : world) (self : addr) (h : hub) : result (hub * list cmsg) :=
  do passed <- sub64 (e_now (w_env w)) (hs_lut (h_state h));
  if hp_epoch (h_params h) <? passed then process_undelegations w self h else Some (h, []).

Definition execute_unbond (w : world) (h : hub) (self : addr) (amount : N) (user : addr)
  : result (hub * list cmsg) :=
  let p := h_params h in
  do h1 <- slashing w self h;
  let s := h_state h1 in
  let cb := h_batch h1 in
  do supply <- hub_bsei_supply w h1;
  do awf <- (if hs_ber s <? hp_thr p then
               do max_fee <- mulU amount (hp_pegfee p);
               do c <- add128 supply (cb_reqb cb);
               do required <- sub128 c (hs_bb s);
               sub128 amount (peg_fee max_fee required)
             else Some amount);
  do reqb <- add128 (cb_reqb cb) awf;
  let cb' := mkBatch (cb_id cb) reqb (cb_reqst cb) in
  do h2 <- add_wait h1 user (cb_id cb) true awf;
  do supply' <- sub128 supply amount;
  do ber <- exchange_rate (hs_bb s) supply' reqb;
  let h3 := set_h_batch (set_h_state h2 (set_ber s ber)) cb' in
  do r <- maybe_undelegate w self h3;
  let '(h4, msgs) := r in
  do tok <- hc_bsei (h_cfg h4);
  Some (h4, msgs ++ [MWasm tok (WCw20 (CBurn amount)) []]).

Definition execute_unbond_stsei (w : world) (h : hub) (self : addr) (amount : N) (user : addr)
  : result (hub * list cmsg) :=
  do h1 <- slashing w self h;
  let cb := h_batch h1 in
  do reqst <- add128 (cb_reqst cb) amount;
  let cb' := mkBatch (cb_id cb) (cb_reqb cb) reqst in
  do h2 <- add_wait h1 user (cb_id cb) false amount;
  let h3 := set_h_batch h2 cb' in
  do r <- maybe_undelegate w self h3;
  let '(h4, msgs) := r in
  do tok <- hc_stsei (h_cfg h4);
  Some (h4, msgs ++ [MWasm tok (WCw20 (CBurn amount)) []]).

(** *** release of matured batches (process_withdraw_rate) *)

(** the batches [start, start+1, ...] that are present, not released and not younger than
    [historical]; both loops of the Rust code stop at the same place *)
Fixpoint release_group (hist : fmap N hist_entry) (i historical : N) (fuel : nat)
  : list (N * hist_entry) :=
  match fuel with
  | O => []
  | S f =>
      match get N.eqb hist i with
      | None => []
      | Some e =>
          if historical <? he_time e then []
          else if he_released e then []
          else (i, e) :: release_group hist (i + 1) historical f
      end
  end.

(** [calculate_new_withdraw_rate amount withdraw_rate total (slashed, negative)] *)
Definition new_withdraw_rate (amount wrate total slashed : N) (neg : bool) : result N :=
  do unb <- mulU256 amount wrate;
  do weight <- (if total =? 0 then Some 0 else ratio256 unb total);
  do sb <- mulU256 slashed weight;
  do actual <- (if neg then
                  add256 unb (if 1 <? sb then sb - 1 else 0)
                else
                  do sb' <- (if slashed =? 0 then Some sb else add256 sb 1);
                  do d <- signed_sub unb sb'; Some (if snd d then 0 else fst d));
  if amount =? 0 then Some wrate
  else do a128 <- narrow128 actual; ratio a128 amount.

Definition group_totals (g : list (N * hist_entry)) : result (N * N) :=
  foldM (fun acc ie =>
           let e := snd ie in
           do su <- mulU256 (he_samt e) (he_swithdraw e);
           do bu <- mulU256 (he_bamt e) (he_bwithdraw e);
           do st <- add256 (fst acc) su;
           do bt <- add256 (snd acc) bu;
           Some (st, bt))
        g (0, 0).

Definition process_withdraw_rate (h : hub) (historical hub_balance : N) : result hub :=
  let s := h_state h in
  let g := release_group (h_hist h) (hs_lpb s + 1) historical (length (h_hist h)) in
  match g with
  | [] => Some h
  | _ =>
      do tot <- group_totals g;
      let '(st_total, b_total) := tot in
      do change <- signed_sub hub_balance (hs_phb s);
      check negb (snd change);
      let actual := fst change in
      do both <- add256 st_total b_total;
      do b_ratio <- (if 0 <? both then
                       do sr <- ratio256 st_total both; sub256 D sr
                     else Some 0);
      do b_actual <- mulU256 actual b_ratio;
      do b_sl <- signed_sub b_total b_actual;
      do st_actual <- sub256 actual b_actual;
      do st_sl <- signed_sub st_total st_actual;
      do hist' <- foldM (fun hist ie =>
                    let '(i, e) := ie in
                    do sr <- new_withdraw_rate (he_samt e) (he_swithdraw e) st_total (fst st_sl) (snd st_sl);
                    do br <- new_withdraw_rate (he_bamt e) (he_bwithdraw e) b_total (fst b_sl) (snd b_sl);
                    Some (hist_put hist i
                            (mkHist (he_time e) (he_bamt e) (he_bapplied e) br
                                    (he_samt e) (he_sapplied e) sr true)))
                  g (h_hist h);
      let last := fold_left (fun _ ie => fst ie) g (hs_lpb s) in
      Some (set_h_state (set_h_hist h hist')
              (mkHubState (hs_ber s) (hs_ser s) (hs_bb s) (hs_bst s) (hs_lim s) (hs_phb s) (hs_lut s) last))
  end.

(** user's wait entries, in map order *)
Definition user_waits (h : hub) (u : addr) : list (N * (N * N)) :=
  flat_map (fun kv => if fst (fst kv) =? u then [(snd (fst kv), snd kv)] else []) (h_wait h).

Definition claim_value (e : hist_entry) (x : N * N) : result N :=
  do a <- mulU (snd x) (he_swithdraw e);
  do b <- mulU (fst x) (he_bwithdraw e);
  add128 a b.

(** [get_finished_amount] *)
Definition finished_amount (h : hub) (u : addr) : result (N * list N) :=
  foldM (fun acc bx =>
           match get N.eqb (h_hist h) (fst bx) with
           | Some e =>
               if he_released e then
                 do v <- claim_value e (snd bx);
                 do t <- add128 (fst acc) v;
                 Some (t, snd acc ++ [fst bx])
               else Some acc
           | None => Some acc
           end)
        (user_waits h u) (0, []).

Definition execute_withdraw (w : world) (h : hub) (self sender : addr) : result (hub * list cmsg) :=
  let p := h_params h in
  do historical <- sub64 (e_now (w_env w)) (hp_unbonding p);
  let hub_balance := bal (w_env w) self (hp_underlying p) in
  do h1 <- process_withdraw_rate h historical hub_balance;
  do fa <- finished_amount h1 sender;
  let '(amount, batches) := fa in
  check negb (amount =? 0);
  let h2 := set_h_wait h1 (fold_left (fun m b => del eqbAN m (sender, b)) batches (h_wait h1)) in
  do prev <- sub128 hub_balance amount;
  let s := h_state h2 in
  let h3 := set_h_state h2 (mkHubState (hs_ber s) (hs_ser s) (hs_bb s) (hs_bst s) (hs_lim s) prev
                                       (hs_lut s) (hs_lpb s)) in
  Some (h3, [MBank sender [(hp_underlying p, amount)]]).

(** ** convert.rs *)
Definition convert_stsei_bsei (w : world) (h : hub) (self : addr) (amount : N) (user : addr)
  : result (hub * list cmsg) :=
  do h1 <- slashing w self h;
  let s := h_state h1 in
  let p := h_params h1 in
  do stok <- hc_stsei (h_cfg h1);
  do btok <- hc_bsei (h_cfg h1);
  do denom_equiv <- mulU amount (hs_ser s);
  do to_mint <- ddiv denom_equiv (hs_ber s);
  let cb := h_batch h1 in
  do bsupply <- hub_bsei_supply w h1;
  do ssupply <- hub_stsei_supply w h1;
  do mint <- (if hs_ber s <? hp_thr p then
                do max_fee <- mulU to_mint (hp_pegfee p);
                do a1 <- add128 bsupply to_mint;
                do a2 <- add128 a1 (cb_reqb cb);
                do b1 <- add128 (hs_bb s) denom_equiv;
                do required <- sub128 a2 b1;
                sub128 to_mint (peg_fee max_fee required)
              else Some to_mint);
  do bb <- add128 (hs_bb s) denom_equiv;
  do bst <- sub128 (hs_bst s) denom_equiv;
  do bsup' <- add128 bsupply mint;
  do ber <- exchange_rate bb bsup' (cb_reqb cb);
  do ssup' <- sub128 ssupply amount;
  do ser <- exchange_rate bst ssup' (cb_reqst cb);
  let h2 := set_h_state h1 (set_rates (set_bonded s bb bst) ber ser) in
  Some (h2, [MWasm btok (WCw20 (CMint user mint)) []; MWasm stok (WCw20 (CBurn amount)) []]).

Definition convert_bsei_stsei (w : world) (h : hub) (self : addr) (amount : N) (user : addr)
  : result (hub * list cmsg) :=
  do h1 <- slashing w self h;
  let s := h_state h1 in
  let p := h_params h1 in
  do stok <- hc_stsei (h_cfg h1);
  do btok <- hc_bsei (h_cfg h1);
  let cb := h_batch h1 in
  do bsupply <- hub_bsei_supply w h1;
  do ssupply <- hub_stsei_supply w h1;
  do awf <- (if hs_ber s <? hp_thr p then
               do max_fee <- mulU amount (hp_pegfee p);
               do c <- add128 bsupply (cb_reqb cb);
               do gap <- sub128 c (hs_bb s);
               do required <- (if hs_bb s =? 0 then Some gap
                               else do rest <- sub128 c amount; mul_ratio gap rest (hs_bb s));
               sub128 amount (peg_fee max_fee required)
             else Some amount);
  do denom_equiv <- mulU awf (hs_ber s);
  do to_mint <- ddiv denom_equiv (hs_ser s);
  do bb <- sub128 (hs_bb s) denom_equiv;
  do bst <- add128 (hs_bst s) denom_equiv;
  do bsup' <- sub128 bsupply amount;
  do ber <- exchange_rate bb bsup' (cb_reqb cb);
  do ssup' <- add128 ssupply to_mint;
  do ser <- exchange_rate bst ssup' (cb_reqst cb);
  let h2 := set_h_state h1 (set_rates (set_bonded s bb bst) ber ser) in
  Some (h2, [MWasm stok (WCw20 (CMint user to_mint)) []; MWasm btok (WCw20 (CBurn amount)) []]).

(** ** config.rs *)
Definition opt_or {A} (o : option A) (d : A) : A := match o with Some x => x | None => d end.

Definition execute_update_params (h : hub) (sender : addr)
           (epoch unbonding pegfee thr : option N) (pz : option bool) (rdenom : option denom)
  : result (hub * list cmsg) :=
  check sender =? hc_creator (h_cfg h);
  let p := h_params h in
  check (match pegfee with Some f => f <=? D | None => true end);
  check (match pz with Some true => true | _ => match h_oldwait h with [] => true | _ => false end end);
  let p' := mkHubParams (opt_or epoch (hp_epoch p)) (hp_underlying p) (opt_or unbonding (hp_unbonding p))
                        (opt_or pegfee (hp_pegfee p)) (N.min (opt_or thr (hp_thr p)) D)
                        (opt_or rdenom (hp_rdenom p)) pz in
  Some (set_h_params h p', []).

Definition execute_update_config (h : hub) (sender : addr)
           (dispa rega bseia stseia airdropa rewardsa updatera : option addr)
  : result (hub * list cmsg) :=
  let c := h_cfg h in
  check sender =? hc_creator c;
  check (match bseia, hc_bsei c with Some _, Some _ => false | _, _ => true end);
  check (match stseia, hc_stsei c with Some _, Some _ => false | _, _ => true end);
  let c' := mkHubConfig (hc_creator c) (opt_or updatera (hc_updater c))
              (match dispa with Some a => Some a | None => hc_disp c end)
              (match rega with Some a => Some a | None => hc_reg c end)
              (match bseia with Some a => Some a | None => hc_bsei c end)
              (match stseia with Some a => Some a | None => hc_stsei c end)
              (match airdropa with Some a => Some a | None => hc_airdrop c end)
              (match rewardsa with Some a => Some a | None => hc_rewards c end) in
  Some (set_h_cfg h c',
        match dispa with Some a => [MSetWithdrawAddr a] | None => [] end).

(** ** state.rs : legacy wait-list migration *)
Definition migrate_wait_lists (h : hub) (limit : option N) : hub :=
  let entries := firstn (N.to_nat (N.min (opt_or limit 1000) 100000)) (h_oldwait h) in
  match entries with
  | [] => h
  | _ =>
      let wait' := fold_left (fun m kv => set eqbAN m (fst kv) (snd kv, 0)) entries (h_wait h) in
      let old' := fold_left (fun m kv => del eqbAN m (fst kv)) entries (h_oldwait h) in
      let h1 := set_h_oldwait (set_h_wait h wait') old' in
      match old' with
      | [] =>
          let p := h_params h1 in
          set_h_params h1 (mkHubParams (hp_epoch p) (hp_underlying p) (hp_unbonding p) (hp_pegfee p)
                                       (hp_thr p) (hp_rdenom p) (Some false))
      | _ => h1
      end
  end.

(** ** contract.rs : remaining handlers *)
Definition execute_update_global (w : world) (h : hub) (self sender : addr) (nhooks : N)
  : result (hub * list cmsg) :=
  let c := h_cfg h in
  check (sender =? hc_updater c) || opt_eqb (hc_reg c) sender;
  do dispaddr <- hc_disp c;
  do hooks <- (if nhooks =? 0 then Some []
               else do reg <- hc_airdrop c;
                    Some (repeat (MWasm reg WOpaque []) (N.to_nat nhooks)));
  let wmsgs := map (fun d => MWithdrawReward (fst d)) (all_delegations (w_env w) self) in
  let s := h_state h in
  let swap := MWasm dispaddr (WDisp (DSwap (hs_bb s) (hs_bst s))) [] in
  let dispatch := MWasm dispaddr (WDisp DDispatch) [] in
  let s' := mkHubState (hs_ber s) (hs_ser s) (hs_bb s) (hs_bst s) (e_now (w_env w)) (hs_phb s)
                       (hs_lut s) (hs_lpb s) in
  Some (set_h_state h s', hooks ++ wmsgs ++ [swap; dispatch]).

Definition receive_cw20 (w : world) (h : hub) (self sender : addr) (user : addr) (amount : N) (hk : hook)
  : result (hub * list cmsg) :=
  do b <- hc_bsei (h_cfg h);
  do st <- hc_stsei (h_cfg h);
  match hk with
  | HkJunk => None
  | HkUnbond =>
      if sender =? b then execute_unbond w h self amount user
      else if sender =? st then execute_unbond_stsei w h self amount user
      else None
  | HkConvert =>
      if sender =? b then convert_bsei_stsei w h self amount user
      else if sender =? st then convert_stsei_bsei w h self amount user
      else None
  end.

Definition hub_execute (w : world) (h : hub) (self sender : addr) (funds : list coin) (m : hub_msg)
  : result (hub * list cmsg) :=
  match m with
  | HMigrate limit =>
      if paused h then Some (migrate_wait_lists h limit, []) else None
  | HParams epoch unbonding pegfee thr pz rdenom =>
      execute_update_params h sender epoch unbonding pegfee thr pz rdenom
  | _ =>
      check negb (paused h);
      match m with
      | HReceive user amount hk => receive_cw20 w h self sender user amount hk
      | HBond => execute_bond w h self sender funds BkB
      | HBondSt => execute_bond w h self sender funds BkSt
      | HBondRewards => execute_bond w h self sender funds BkRw
      | HUpdateGlobal n => execute_update_global w h self sender n
      | HWithdraw => execute_withdraw w h self sender
      | HCheckSlashing => do h1 <- slashing w self h; Some (h1, [])
      | HConfig a b c d e f g => execute_update_config h sender a b c d e f g
      | HSetOwner a =>
          check sender =? hc_creator (h_cfg h);
          Some (set_h_newowner h a, [])
      | HAccept =>
          check sender =? h_newowner h;
          let c := h_cfg h in
          Some (set_h_cfg h (mkHubConfig (h_newowner h) (hc_updater c) (hc_disp c) (hc_reg c)
                                         (hc_bsei c) (hc_stsei c) (hc_airdrop c) (hc_rewards c)), [])
      | HSwapHook tok swapc =>
          check sender =? self;
          do t <- token_at w tok;
          let b := tbal t self in
          check negb (b =? 0);
          Some (h, [MWasm tok (WCw20 (CSend swapc b HkJunk)) []])
      | HClaimAirdrop tok airdropc swapc =>
          do reg <- hc_airdrop (h_cfg h);
          check reg =? sender;
          Some (h, [MWasm airdropc WOpaque []; MWasm self (WHub (HSwapHook tok swapc)) []])
      | HRedelProxy src l =>
          do reg <- hc_reg (h_cfg h);
          check sender =? reg;
          Some (h, map (fun p => MRedelegate src (fst p) (snd p)) l)
      | HMigrate _ | HParams _ _ _ _ _ _ => None
      end
  end.

(** ** queries *)
Definition hub_query_state (w : world) (self : addr) : result hub_state :=
  do h <- w_hub w; query_actual_state w self h.

(** [query_get_finished_amount] behind WithdrawableUnbonded *)
Definition hub_query_withdrawable (w : world) (u : addr) : result N :=
  do h <- w_hub w;
  do block_time <- sub64 (e_now (w_env w)) (hp_unbonding (h_params h));
  do r <- foldM (fun acc bx =>
             match get N.eqb (h_hist h) (fst bx) with
             | Some e =>
                 if he_time e <? block_time then
                   do v <- claim_value e (snd bx); add128 acc v
                 else Some acc
             | None => Some acc
             end)
          (user_waits h u) 0;
  Some r.

(** AllHistory{start_from, limit}: entries with id > start (all if None), at most min(limit,100) *)
Definition hub_query_history (h : hub) (start : option N) (limit : option N) : list (N * hist_entry) :=
  let l := match start with
           | Some s => filter (fun ie => s <? fst ie) (h_hist h)
           | None => h_hist h
           end in
  firstn (N.to_nat (N.min (opt_or limit 10) 100)) l.
