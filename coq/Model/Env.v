(** * Env: the chain environment — bank, staking, distribution, clock, stub contracts.
    This is the trusted model of what the Cosmos SDK modules do (DESIGN.md section 7,
    PROTOCOL.md section 2); it is implemented a second time, independently, by the Rust
    mini-chain, and the two are compared by the correspondence check. *)
From Krp Require Export Types.

(** ** Bank *)
Definition bal (e : env) (a : addr) (d : denom) : N := getN eqbNN (e_bank e) (a, d).

Definition set_bank (e : env) (b : fmap (addr * denom) N) : env :=
  mkEnv (e_now e) (e_ut e) b (e_del e) (e_unb e) (e_pend e) (e_wdaddr e) (e_noredel e)
        (e_price e) (e_swapmode e) (e_oraclemode e).
Definition set_del (e : env) (x : fmap (addr * val) N) : env :=
  mkEnv (e_now e) (e_ut e) (e_bank e) x (e_unb e) (e_pend e) (e_wdaddr e) (e_noredel e)
        (e_price e) (e_swapmode e) (e_oraclemode e).
Definition set_unb (e : env) (x : list (addr * val * N * N)) : env :=
  mkEnv (e_now e) (e_ut e) (e_bank e) (e_del e) x (e_pend e) (e_wdaddr e) (e_noredel e)
        (e_price e) (e_swapmode e) (e_oraclemode e).
Definition set_pend (e : env) (x : fmap (addr * (val * denom)) N) : env :=
  mkEnv (e_now e) (e_ut e) (e_bank e) (e_del e) (e_unb e) x (e_wdaddr e) (e_noredel e)
        (e_price e) (e_swapmode e) (e_oraclemode e).
Definition set_wdaddr (e : env) (x : fmap addr addr) : env :=
  mkEnv (e_now e) (e_ut e) (e_bank e) (e_del e) (e_unb e) (e_pend e) x (e_noredel e)
        (e_price e) (e_swapmode e) (e_oraclemode e).
Definition set_now (e : env) (t : N) : env :=
  mkEnv t (e_ut e) (e_bank e) (e_del e) (e_unb e) (e_pend e) (e_wdaddr e) (e_noredel e)
        (e_price e) (e_swapmode e) (e_oraclemode e).
Definition set_noredel (e : env) (x : list val) : env :=
  mkEnv (e_now e) (e_ut e) (e_bank e) (e_del e) (e_unb e) (e_pend e) (e_wdaddr e) x
        (e_price e) (e_swapmode e) (e_oraclemode e).
Definition set_price (e : env) (p : N) : env :=
  mkEnv (e_now e) (e_ut e) (e_bank e) (e_del e) (e_unb e) (e_pend e) (e_wdaddr e) (e_noredel e)
        p (e_swapmode e) (e_oraclemode e).
Definition set_swapmode (e : env) (m : swapmode) : env :=
  mkEnv (e_now e) (e_ut e) (e_bank e) (e_del e) (e_unb e) (e_pend e) (e_wdaddr e) (e_noredel e)
        (e_price e) m (e_oraclemode e).
Definition set_oraclemode (e : env) (m : oraclemode) : env :=
  mkEnv (e_now e) (e_ut e) (e_bank e) (e_del e) (e_unb e) (e_pend e) (e_wdaddr e) (e_noredel e)
        (e_price e) (e_swapmode e) m.

(** credit never fails (unbounded supply in the environment) *)
Definition credit (e : env) (a : addr) (d : denom) (x : N) : env :=
  set_bank e (set eqbNN (e_bank e) (a, d) (bal e a d + x)).

Definition debit (e : env) (a : addr) (d : denom) (x : N) : result env :=
  if x <=? bal e a d then Some (set_bank e (set eqbNN (e_bank e) (a, d) (bal e a d - x))) else None.

(** move one coin; zero amounts are rejected (SDK coin validation) *)
Definition send_coin (e : env) (from to : addr) (c : coin) : result env :=
  let '(d, x) := c in
  check negb (x =? 0);
  do e1 <- debit e from d x;
  Some (credit e1 to d x).

Definition send_coins (e : env) (from to : addr) (cs : list coin) : result env :=
  foldM (fun e c => send_coin e from to c) cs e.

(** BankMsg::Send: an empty coin list is rejected too *)
Definition bank_send (e : env) (from to : addr) (cs : list coin) : result env :=
  match cs with [] => None | _ => send_coins e from to cs end.

(** AllBalances: non-zero coins in DENOMS order *)
Definition all_balances (e : env) (a : addr) : list coin :=
  filter (fun c => negb (snd c =? 0)) (map (fun d => (d, bal e a d)) DENOMS).

(** ** Staking *)
Definition delegation (e : env) (x : addr) (v : val) : option N := get eqbNN (e_del e) (x, v).

(** AllDelegations: existing entries in VALS order *)
Definition all_delegations (e : env) (x : addr) : list (val * N) :=
  flat_map (fun v => match delegation e x v with Some a => [(v, a)] | None => [] end) VALS.

Definition can_redelegate (e : env) (v : val) : bool := negb (existsb (N.eqb v) (e_noredel e)).

(** ** Distribution *)
Definition pending (e : env) (x : addr) (v : val) (d : denom) : N :=
  getN eqbAVD (e_pend e) (x, (v, d)).

Definition withdraw_addr (e : env) (x : addr) : addr :=
  match get eqbA (e_wdaddr e) x with Some a => a | None => x end.

(** pay out all pending rewards of (x, v) to x's withdraw address *)
Definition payout (e : env) (x : addr) (v : val) : env :=
  fold_left (fun e d =>
    let p := pending e x v d in
    if p =? 0 then e
    else credit (set_pend e (set eqbAVD (e_pend e) (x, (v, d)) 0)) (withdraw_addr e x) d p)
    DENOMS e.

Definition payout_if_entry (e : env) (x : addr) (v : val) : env :=
  match delegation e x v with Some _ => payout e x v | None => e end.

Definition staking_coin_ok (c : coin) : bool := (fst c =? usei) && negb (snd c =? 0).

Definition do_delegate (e : env) (x : addr) (v : val) (c : coin) : result env :=
  check staking_coin_ok c; check is_val v;
  let amt := snd c in
  check amt <=? bal e x usei;
  let e1 := payout_if_entry e x v in
  do e2 <- debit e1 x usei amt;
  let cur := match delegation e2 x v with Some a => a | None => 0 end in
  Some (set_del e2 (set eqbNN (e_del e2) (x, v) (cur + amt))).

Definition do_undelegate (e : env) (x : addr) (v : val) (c : coin) : result env :=
  check staking_coin_ok c;
  let amt := snd c in
  match delegation e x v with
  | None => None
  | Some cur =>
      check amt <=? cur;
      let e1 := payout e x v in
      let rest := cur - amt in
      let dl := if rest =? 0 then del eqbNN (e_del e1) (x, v) else set eqbNN (e_del e1) (x, v) rest in
      let e2 := set_del e1 dl in
      Some (set_unb e2 (e_unb e2 ++ [(x, v, amt, e_now e + e_ut e)]))
  end.

Definition do_redelegate (e : env) (x : addr) (src dst : val) (c : coin) : result env :=
  check staking_coin_ok c;
  check can_redelegate e src;
  let amt := snd c in
  match delegation e x src with
  | None => None
  | Some cur =>
      check amt <=? cur;
      check is_val dst;
      let e1 := payout e x src in
      let e2 := payout_if_entry e1 x dst in
      let rest := cur - amt in
      let dl := if rest =? 0 then del eqbNN (e_del e2) (x, src) else set eqbNN (e_del e2) (x, src) rest in
      let dcur := match get eqbNN dl (x, dst) with Some a => a | None => 0 end in
      Some (set_del e2 (set eqbNN dl (x, dst) (dcur + amt)))
  end.

Definition do_withdraw_reward (e : env) (x : addr) (v : val) : result env :=
  match delegation e x v with
  | None => None
  | Some _ => Some (payout e x v)
  end.

Definition do_set_withdraw_addr (e : env) (x a : addr) : env :=
  set_wdaddr e (set eqbA (e_wdaddr e) x a).

(** ** Environment events *)
Definition deliver_matured (e : env) : env :=
  let now := e_now e in
  fold_left (fun e u =>
    let '(x, v, amt, t) := u in
    if t <=? now then credit e x usei amt
    else set_unb e (e_unb e ++ [u]))
    (e_unb e) (set_unb e []).

Definition ev_advance (e : env) (dt : N) : env := deliver_matured (set_now e (e_now e + dt)).

Definition slash_amt (a num den : N) : N := a * (den - num) / den.

Definition ev_slash (e : env) (v : val) (num den : N) (unb : bool) : result env :=
  check num <=? den; check negb (den =? 0);
  let dl := map (fun kv => let '((x, v'), a) := kv in
                           if v' =? v then ((x, v'), slash_amt a num den) else kv) (e_del e) in
  let ub := if unb then
              map (fun u => let '(x, v', a, t) := u in
                            if v' =? v then (x, v', slash_amt a num den, t) else u) (e_unb e)
            else e_unb e in
  Some (set_unb (set_del e dl) ub).

Definition ev_accrue (e : env) (x : addr) (v : val) (d : denom) (a : N) : result env :=
  match delegation e x v with
  | None => None
  | Some _ => Some (set_pend e (set eqbAVD (e_pend e) (x, (v, d)) (pending e x v d + a)))
  end.

(** ** Stub contracts: swap and oracle *)
Definition stub_rate (e : env) (from to : denom) : N :=
  if (from =? usei) && (to =? uusd) then e_price e
  else if (from =? uusd) && (to =? usei) then D * D / e_price e
  else D.

Definition swap_out (e : env) (from : coin) (target : denom) : result N :=
  narrow128 (snd from * stub_rate e (fst from) target / D).

(** execute SwapDenom; funds have already been moved to the swap contract *)
Definition swap_execute (e : env) (sender : addr) (m : swap_msg) : result env :=
  let '(SSwapDenom from target to) := m in
  match e_swapmode e with
  | SwFail => None
  | SwGarbage => Some (credit e (match to with Some a => a | None => sender end) target 1)
  | SwOk =>
      do out <- swap_out e from target;
      if out =? 0 then Some e
      else Some (credit e (match to with Some a => a | None => sender end) target out)
  end.

(** QuerySimulation *)
Definition swap_simulate (e : env) (offer : coin) (ask : denom) : result N :=
  match e_swapmode e with
  | SwFail => None
  | SwGarbage => Some 12345
  | SwOk => swap_out e offer ask
  end.

(** oracle QueryExchangeRateByAssetLabel *)
Definition oracle_rate (e : env) (base quote : denom) : result N :=
  match e_oraclemode e with
  | OrFail => None
  | OrZero => Some 0
  | OrOk => Some (stub_rate e base quote)
  end.
