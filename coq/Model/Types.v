(** * Types: identifiers, messages, contract states and the world.
    Everything here is data; behaviour is in the other Model files.  No proofs. *)
From Krp Require Export Prelude Fixed FMap.

Definition addr := N.
Definition denom := N.
Definition val := N.
Definition coin := (denom * N)%type.

(** Fixed addresses of the six contracts and the three stub contracts (PROTOCOL.md section 1:
    address id = 1 + index in ADDRS). *)
Definition A_hub : addr := 1.
Definition A_reward : addr := 2.
Definition A_disp : addr := 3.
Definition A_reg : addr := 4.
Definition A_bsei : addr := 5.
Definition A_stsei : addr := 6.
Definition A_swap : addr := 7.
Definition A_oracle : addr := 8.
Definition A_airdrop : addr := 9.
Definition A_owner : addr := 10.

(** Denoms = index in DENOMS (ascending byte order). *)
Definition uatom : denom := 0.
Definition ujunk : denom := 1.
Definition usei : denom := 2.
Definition uusd : denom := 3.
Definition DENOMS : list denom := [0; 1; 2; 3].
(** Validators that exist on the chain. *)
Definition VALS : list val := [0; 1; 2; 3; 4; 5; 6; 7; 8; 9; 10; 11].
Definition is_val (v : val) : bool := v <? 12.

(** ** Messages *)
Inductive hook := HkUnbond | HkConvert | HkJunk.
Inductive expiration := ExpNever | ExpHeight (h : N) | ExpTime (t : N).

Inductive cw20_msg :=
| CTransfer (to : addr) (amt : N)
| CBurn (amt : N)
| CMint (to : addr) (amt : N)
| CSend (c : addr) (amt : N) (h : hook)
| CIncAllow (s : addr) (amt : N) (e : option expiration)
| CDecAllow (s : addr) (amt : N) (e : option expiration)
| CTransferFrom (o to : addr) (amt : N)
| CBurnFrom (o : addr) (amt : N)
| CSendFrom (o c : addr) (amt : N) (h : hook)
| CUpdMinter (m : option addr).

Inductive hub_msg :=
| HBond | HBondSt | HBondRewards
| HUpdateGlobal (nhooks : N)
| HWithdraw | HCheckSlashing
| HParams (epoch unbonding pegfee thr : option N) (paused : option bool) (rdenom : option denom)
| HConfig (disp reg bsei stsei airdrop rewards updater : option addr)
| HSetOwner (a : addr) | HAccept
| HRedelProxy (src : val) (l : list (val * coin))
| HSwapHook (tok swapc : addr)
| HClaimAirdrop (tok airdropc swapc : addr)
| HMigrate (limit : option N)
| HReceive (sender : addr) (amt : N) (h : hook).

Inductive reward_msg :=
| RClaim (r : option addr)
| RConfig (hub : option addr) (d : option denom) (swap : option addr)
| RSetOwner (a : addr) | RAccept
| RSwap | RUpdateIndex
| RInc (a : addr) (amt : N) | RDec (a : addr) (amt : N)
| RSwapDenom (d : denom) (add : bool).

Inductive disp_msg :=
| DSwap (bb stb : N)
| DDispatch
| DConfig (hub reward : option addr) (std bd : option denom) (keeper : option addr) (rate : option N)
| DSetOwner (a : addr) | DAccept
| DSwapContract (a : addr)
| DSwapDenom (d : denom) (add : bool)
| DOracle (a : addr).

Inductive reg_msg :=
| GAdd (v : val) | GRemove (v : val) | GConfig (hub : option addr)
| GRedelegations (v : val) | GSetOwner (a : addr) | GAccept.

Inductive swap_msg := SSwapDenom (from : coin) (target : denom) (to : option addr).

Inductive wasm_msg :=
| WHub (m : hub_msg) | WReward (m : reward_msg) | WDisp (m : disp_msg) | WReg (m : reg_msg)
| WCw20 (m : cw20_msg) | WSwap (m : swap_msg) | WOpaque.

(** A CosmosMsg emitted by a contract (or the root message of a transaction). *)
Inductive cmsg :=
| MWasm (to : addr) (m : wasm_msg) (funds : list coin)
| MBank (to : addr) (coins : list coin)
| MDelegate (v : val) (c : coin)
| MUndelegate (v : val) (c : coin)
| MRedelegate (src dst : val) (c : coin)
| MWithdrawReward (v : val)
| MSetWithdrawAddr (a : addr).

(** ** Contract states *)
Record hub_config := mkHubConfig {
  hc_creator : addr; hc_updater : addr;
  hc_disp : option addr; hc_reg : option addr; hc_bsei : option addr; hc_stsei : option addr;
  hc_airdrop : option addr; hc_rewards : option addr }.

Record hub_state := mkHubState {
  hs_ber : N; hs_ser : N; hs_bb : N; hs_bst : N;
  hs_lim : N; hs_phb : N; hs_lut : N; hs_lpb : N }.

Record hub_params := mkHubParams {
  hp_epoch : N; hp_underlying : denom; hp_unbonding : N; hp_pegfee : N; hp_thr : N;
  hp_rdenom : denom; hp_paused : option bool }.

Record hub_batch := mkBatch { cb_id : N; cb_reqb : N; cb_reqst : N }.

Record hist_entry := mkHist {
  he_time : N;
  he_bamt : N; he_bapplied : N; he_bwithdraw : N;
  he_samt : N; he_sapplied : N; he_swithdraw : N;
  he_released : bool }.

Record hub := mkHub {
  h_cfg : hub_config; h_state : hub_state; h_params : hub_params; h_batch : hub_batch;
  h_newowner : addr;
  h_wait : fmap (addr * N) (N * N);        (* (user, batch) -> (bsei, stsei) *)
  h_hist : fmap N hist_entry;              (* kept sorted by ascending batch id *)
  h_oldwait : fmap (addr * N) N }.         (* legacy wait list, kept sorted by (user, batch) *)

Record allowance := mkAllow { al_amt : N; al_exp : expiration }.

Record token := mkToken {
  tk_hub : addr; tk_supply : N; tk_minter : option (addr * option N);
  tk_bal : fmap addr N; tk_allow : fmap (addr * addr) allowance }.

Record holder := mkHolder { ho_bal : N; ho_idx : N; ho_pend : N }.

Record reward := mkReward {
  rw_owner : addr; rw_hub : addr; rw_denom : denom; rw_swap : addr; rw_denoms : list denom;
  rw_gi : N; rw_total : N; rw_prev : N;
  rw_holders : fmap addr holder; rw_newowner : addr }.

Record disp := mkDisp {
  dp_owner : addr; dp_hub : addr; dp_reward : addr; dp_std : denom; dp_bd : denom;
  dp_keeper : addr; dp_rate : N; dp_swap : addr; dp_denoms : list denom; dp_oracle : addr;
  dp_newowner : addr }.

Record registry := mkReg {
  rg_owner : addr; rg_hub : addr; rg_vals : list val;   (* sorted ascending, no duplicates *)
  rg_newowner : addr }.

(** ** Environment (bank, staking, distribution, clock, stubs) — trusted model of the chain *)
Inductive swapmode := SwOk | SwFail | SwGarbage.
Inductive oraclemode := OrOk | OrFail | OrZero.

Record env := mkEnv {
  e_now : N; e_ut : N;
  e_bank : fmap (addr * denom) N;
  e_del : fmap (addr * val) N;
  e_unb : list (addr * val * N * N);       (* delegator, validator, amount, completion *)
  e_pend : fmap (addr * (val * denom)) N;
  e_wdaddr : fmap addr addr;
  e_noredel : list val;                    (* validators whose can_redelegate flag is false *)
  e_price : N; e_swapmode : swapmode; e_oraclemode : oraclemode }.

Record world := mkWorld {
  w_hub : option hub; w_reward : option reward; w_disp : option disp; w_reg : option registry;
  w_bsei : option token; w_stsei : option token; w_env : env }.

(** Key equalities *)
Definition eqbA : addr -> addr -> bool := N.eqb.
Definition eqbAN : addr * N -> addr * N -> bool := eqbNN.
Definition eqbAVD (a b : addr * (val * denom)) : bool :=
  (fst a =? fst b) && eqbNN (snd a) (snd b).

Definition opt_eqb (a : option addr) (b : addr) : bool :=
  match a with Some x => x =? b | None => false end.

(** Functional record updates *)
Definition set_hub (w : world) (h : hub) : world :=
  mkWorld (Some h) (w_reward w) (w_disp w) (w_reg w) (w_bsei w) (w_stsei w) (w_env w).
Definition set_reward (w : world) (r : reward) : world :=
  mkWorld (w_hub w) (Some r) (w_disp w) (w_reg w) (w_bsei w) (w_stsei w) (w_env w).
Definition set_disp (w : world) (d : disp) : world :=
  mkWorld (w_hub w) (w_reward w) (Some d) (w_reg w) (w_bsei w) (w_stsei w) (w_env w).
Definition set_reg (w : world) (g : registry) : world :=
  mkWorld (w_hub w) (w_reward w) (w_disp w) (Some g) (w_bsei w) (w_stsei w) (w_env w).
Definition set_bsei (w : world) (t : token) : world :=
  mkWorld (w_hub w) (w_reward w) (w_disp w) (w_reg w) (Some t) (w_stsei w) (w_env w).
Definition set_stsei (w : world) (t : token) : world :=
  mkWorld (w_hub w) (w_reward w) (w_disp w) (w_reg w) (w_bsei w) (Some t) (w_env w).
Definition set_env (w : world) (e : env) : world :=
  mkWorld (w_hub w) (w_reward w) (w_disp w) (w_reg w) (w_bsei w) (w_stsei w) e.

Definition set_h_cfg (h : hub) c := mkHub c (h_state h) (h_params h) (h_batch h) (h_newowner h) (h_wait h) (h_hist h) (h_oldwait h).
Definition set_h_state (h : hub) s := mkHub (h_cfg h) s (h_params h) (h_batch h) (h_newowner h) (h_wait h) (h_hist h) (h_oldwait h).
Definition set_h_params (h : hub) p := mkHub (h_cfg h) (h_state h) p (h_batch h) (h_newowner h) (h_wait h) (h_hist h) (h_oldwait h).
Definition set_h_batch (h : hub) b := mkHub (h_cfg h) (h_state h) (h_params h) b (h_newowner h) (h_wait h) (h_hist h) (h_oldwait h).
Definition set_h_newowner (h : hub) a := mkHub (h_cfg h) (h_state h) (h_params h) (h_batch h) a (h_wait h) (h_hist h) (h_oldwait h).
Definition set_h_wait (h : hub) x := mkHub (h_cfg h) (h_state h) (h_params h) (h_batch h) (h_newowner h) x (h_hist h) (h_oldwait h).
Definition set_h_hist (h : hub) x := mkHub (h_cfg h) (h_state h) (h_params h) (h_batch h) (h_newowner h) (h_wait h) x (h_oldwait h).
Definition set_h_oldwait (h : hub) x := mkHub (h_cfg h) (h_state h) (h_params h) (h_batch h) (h_newowner h) (h_wait h) (h_hist h) x.

Definition empty_env (ut : N) : env :=
  mkEnv 1000000 ut [] [] [] [] [] [] D SwOk OrOk.
Definition empty_world (ut : N) : world :=
  mkWorld None None None None None None (empty_env ut).
