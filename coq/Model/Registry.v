(** * Registry: basset_sei_validators_registry (common.rs, contract.rs).  No proofs. *)
From Krp Require Export Types Env.

(** ** common.rs *)

(** the [for] loop of [calculate_delegations]; [i] is the 0-based index *)
Fixpoint deleg_loop (cpv rem i : N) (ds : list N) (amount : N) : N * list N :=
  match ds with
  | [] => (amount, [])
  | d :: r =>
      let target := cpv + (if i + 1 <=? rem then 1 else 0) in
      if target <? d then
        let '(a', xs) := deleg_loop cpv rem (i + 1) r amount in (a', 0 :: xs)
      else
        let t := N.min (target - d) amount in
        let amount' := amount - t in
        if amount' =? 0 then (0, t :: map (fun _ => 0) r)
        else let '(a', xs) := deleg_loop cpv rem (i + 1) r amount' in (a', t :: xs)
  end.

Definition len {A} (l : list A) : N := N.of_nat (length l).

(** [calculate_delegations amount validators] on the list of [total_delegated] values *)
Definition deleg (amount : N) (ds : list N) : result (N * list N) :=
  match ds with
  | [] => None
  | _ =>
      do tot <- narrow128 (sumN ds);          (* u128 [sum] with overflow checks *)
      do total <- add128 tot amount;
      let n := len ds in
      Some (deleg_loop (total / n) (total mod n) 0 ds amount)
  end.

(** one pass of the [for] loop inside the [while] of [calculate_undelegations]:
    returns the remaining amount, the per-validator amounts of this pass, the updated stakes *)
Fixpoint undeleg_pass (cpv rem i : N) (ds : list N) (amount : N) : N * list N * list N :=
  match ds with
  | [] => (amount, [], [])
  | d :: r =>
      let target := cpv + (if i + 1 <=? rem then 1 else 0) in
      let t := N.min (d - N.min target d) amount in
      let amount' := amount - t in
      if amount' =? 0 then (0, t :: map (fun _ => 0) r, (d - t) :: r)
      else let '(a', ys, ds') := undeleg_pass cpv rem (i + 1) r amount' in (a', t :: ys, (d - t) :: ds')
  end.

Fixpoint zipadd (a b : list N) : list N :=
  match a, b with
  | x :: a', y :: b' => (x + y) :: zipadd a' b'
  | _, _ => []
  end.

Fixpoint undeleg_loop (fuel : nat) (amount total : N) (ds acc : list N) : result (list N) :=
  if amount =? 0 then Some acc else
  match fuel with
  | O => None                                   (* out of fuel: excluded by theorem C12 *)
  | S f =>
      let after := total - amount in
      let n := len ds in
      let '(a', ys, ds') := undeleg_pass (after / n) (after mod n) 0 ds amount in
      undeleg_loop f a' (total - (amount - a')) ds' (zipadd acc ys)
  end.

Definition undeleg_fuel : nat := 4.

Definition undeleg (amount : N) (ds : list N) : result (list N) :=
  match ds with
  | [] => None
  | _ =>
      do total <- narrow128 (sumN ds);
      check amount <=? total;
      undeleg_loop undeleg_fuel amount total ds (map (fun _ => 0) ds)
  end.

(** stable insertion sort (Rust [sort_by] is stable) by a strict "goes before" relation *)
Section Sort.
  Context {A : Type} (before : A -> A -> bool).
  Fixpoint insert_sorted (x : A) (l : list A) : list A :=
    match l with
    | [] => [x]
    | y :: r => if before x y then x :: y :: r else y :: insert_sorted x r
    end.
  Definition stable_sort (l : list A) : list A := fold_left (fun acc x => insert_sorted x acc) l [].
End Sort.

Definition sort_asc (l : list (val * N)) : list (val * N) :=
  stable_sort (fun a b => snd a <? snd b) l.
Definition sort_desc (l : list (val * N)) : list (val * N) :=
  stable_sort (fun a b => snd b <? snd a) l.

(** ** contract.rs *)

Fixpoint insert_val (v : val) (l : list val) : list val :=
  match l with
  | [] => [v]
  | x :: r => if v =? x then l else if v <? x then v :: l else x :: insert_val v r
  end.

Definition remove_val (v : val) (l : list val) : list val := filter (fun x => negb (x =? v)) l.

Definition reg_instantiate (sender hubaddr : addr) (vals : list val) : registry :=
  mkReg sender hubaddr (fold_left (fun acc v => insert_val v acc) vals []) sender.

(** [query_validators]: registry order, with the hub's current delegation *)
Definition reg_query_validators (w : world) (g : registry) : list (val * N) :=
  let dels := all_delegations (w_env w) (rg_hub g) in
  map (fun v => (v, match get N.eqb dels v with Some a => a | None => 0 end)) (rg_vals g).

Definition reg_validators_for_delegation (w : world) : result (list (val * N)) :=
  do g <- w_reg w; Some (sort_asc (reg_query_validators w g)).

Definition set_rg_vals (g : registry) l := mkReg (rg_owner g) (rg_hub g) l (rg_newowner g).

(** the part shared by [remove_validator] and [redelegations] after the registry update *)
Definition reg_redelegate_msgs (w : world) (g : registry) (v : val) : result (list cmsg) :=
  let validators := sort_asc (reg_query_validators w g) in
  let hubaddr := rg_hub g in
  match delegation (w_env w) hubaddr v with
  | None => Some []
  | Some amount =>
      let canre := if can_redelegate (w_env w) v then amount else 0 in
      if canre <? amount then Some []
      else
        do r <- deleg amount (map snd validators);
        let dl := snd r in
        let redels := flat_map (fun p => if snd p =? 0 then [] else [(fst (fst p), (usei, snd p))])
                               (combine validators dl) in
        Some [ MWasm hubaddr (WHub (HRedelProxy v redels)) [];
               MWasm hubaddr (WHub (HUpdateGlobal 0)) [] ]
  end.

Definition reg_execute (w : world) (g : registry) (sender : addr) (m : reg_msg)
  : result (registry * list cmsg) :=
  match m with
  | GAdd v =>
      check (sender =? rg_owner g) || (sender =? rg_hub g);
      Some (set_rg_vals g (insert_val v (rg_vals g)), [])
  | GRemove v =>
      check sender =? rg_owner g;
      let g' := set_rg_vals g (remove_val v (rg_vals g)) in
      match rg_vals g' with
      | [] => None
      | _ =>
          do msgs <- reg_redelegate_msgs w g' v;
          Some (g', msgs)
      end
  | GConfig h =>
      check sender =? rg_owner g;
      let g' := match h with Some a => mkReg (rg_owner g) a (rg_vals g) (rg_newowner g) | None => g end in
      Some (g', [])
  | GRedelegations v =>
      check negb (existsb (N.eqb v) (rg_vals g));
      do msgs <- reg_redelegate_msgs w g v;
      Some (g, msgs)
  | GSetOwner a =>
      check sender =? rg_owner g;
      Some (mkReg (rg_owner g) (rg_hub g) (rg_vals g) a, [])
  | GAccept =>
      check sender =? rg_newowner g;
      Some (mkReg (rg_newowner g) (rg_hub g) (rg_vals g) (rg_newowner g), [])
  end.
