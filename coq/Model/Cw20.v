(** * Cw20: the two token contracts.
    [bsei] = basset_sei_token_bsei on packages/cw20-legacy (mirrors every balance change into the
    reward contract); [stsei] = basset_sei_token_stsei on the external crate cw20-base 0.16.
    The flag [base] selects the cw20-base variant.  No proofs. *)
From Krp Require Export Types Env.

Definition tbal (t : token) (a : addr) : N := getN eqbA (tk_bal t) a.

Definition set_tk_bal (t : token) b := mkToken (tk_hub t) (tk_supply t) (tk_minter t) b (tk_allow t).
Definition set_tk_supply (t : token) s := mkToken (tk_hub t) s (tk_minter t) (tk_bal t) (tk_allow t).
Definition set_tk_allow (t : token) a := mkToken (tk_hub t) (tk_supply t) (tk_minter t) (tk_bal t) a.
Definition set_tk_minter (t : token) m := mkToken (tk_hub t) (tk_supply t) m (tk_bal t) (tk_allow t).

Definition is_expired (e : expiration) (now height : N) : bool :=
  match e with
  | ExpNever => false
  | ExpHeight h => h <=? height
  | ExpTime t => t <=? now
  end.

Definition height_of (now : N) : N := now / 5.

(** ** instantiate *)
Fixpoint has_dup (l : list addr) : bool :=
  match l with
  | [] => false
  | x :: r => existsb (N.eqb x) r || has_dup r
  end.

(** [create_accounts]: every row is saved (a repeated address overwrites), every row is summed *)
Definition create_accounts (rows : list (addr * N)) : result (fmap addr N * N) :=
  foldM (fun acc row =>
           let '(b, s) := acc in
           do s' <- add128 s (snd row);
           Some (set eqbA b (fst row) (snd row), s'))
        rows ([], 0).

Definition tok_instantiate (base : bool) (hubaddr : addr) (mk : N) (rows : list (addr * N))
  : result token :=
  (* stsei wrapper: marketing info with an address is mandatory (checked before cw20 init) *)
  check (negb base) || (mk =? 2);
  (* both crates reject repeated initial addresses (cw20-legacy since the fix of finding F4) *)
  check negb (has_dup (map fst rows));
  do bs <- create_accounts rows;
  Some (mkToken hubaddr (snd bs) (Some (hubaddr, None)) (fst bs) []).

(** ** core ledger operations shared by both crates *)
Definition tok_move (t : token) (from to : addr) (amt : N) : result token :=
  do fb <- sub128 (tbal t from) amt;
  let t1 := set_tk_bal t (set eqbA (tk_bal t) from fb) in
  do tb <- add128 (tbal t1 to) amt;
  Some (set_tk_bal t1 (set eqbA (tk_bal t1) to tb)).

Definition tok_burn_from_acct (t : token) (from : addr) (amt : N) : result token :=
  do fb <- sub128 (tbal t from) amt;
  let t1 := set_tk_bal t (set eqbA (tk_bal t) from fb) in
  do s <- sub128 (tk_supply t1) amt;
  Some (set_tk_supply t1 s).

Definition tok_mint (t : token) (sender to : addr) (amt : N) : result token :=
  check negb (amt =? 0);
  match tk_minter t with
  | None => None
  | Some (m, cap) =>
      check m =? sender;
      do s <- add128 (tk_supply t) amt;
      check (match cap with Some c => s <=? c | None => true end);
      let t1 := set_tk_supply t s in
      do tb <- add128 (tbal t1 to) amt;
      Some (set_tk_bal t1 (set eqbA (tk_bal t1) to tb))
  end.

Definition deduct_allowance (t : token) (now : N) (owner spender : addr) (amt : N) : result token :=
  match get eqbNN (tk_allow t) (owner, spender) with
  | None => None
  | Some a =>
      check negb (is_expired (al_exp a) now (height_of now));
      do rest <- sub128 (al_amt a) amt;
      Some (set_tk_allow t (set eqbNN (tk_allow t) (owner, spender) (mkAllow rest (al_exp a))))
  end.

Definition tok_inc_allow (base : bool) (t : token) (now : N) (owner spender : addr) (amt : N)
           (e : option expiration) : result token :=
  check negb (spender =? owner);
  let cur := match get eqbNN (tk_allow t) (owner, spender) with
             | Some a => a | None => mkAllow 0 ExpNever end in
  do ex <- match e with
           | Some x => if base && is_expired x now (height_of now) then None else Some x
           | None => Some (al_exp cur)
           end;
  do a' <- add128 (al_amt cur) amt;
  Some (set_tk_allow t (set eqbNN (tk_allow t) (owner, spender) (mkAllow a' ex))).

Definition tok_dec_allow (base : bool) (t : token) (now : N) (owner spender : addr) (amt : N)
           (e : option expiration) : result token :=
  check negb (spender =? owner);
  match get eqbNN (tk_allow t) (owner, spender) with
  | None => None
  | Some cur =>
      if amt <? al_amt cur then
        do ex <- match e with
                 | Some x => if base && is_expired x now (height_of now) then None else Some x
                 | None => Some (al_exp cur)
                 end;
        Some (set_tk_allow t (set eqbNN (tk_allow t) (owner, spender) (mkAllow (al_amt cur - amt) ex)))
      else Some (set_tk_allow t (del eqbNN (tk_allow t) (owner, spender)))
  end.

(** ** bSei: where balance changes are mirrored *)

(** [querier::query_reward_contract]: hub Config -> dispatcher Config -> bsei_reward_contract *)
Definition query_reward_contract (w : world) (t : token) : result addr :=
  check tk_hub t =? A_hub;
  do h <- w_hub w;
  do d <- hc_disp (h_cfg h);
  check d =? A_disp;
  do dp <- w_disp w;
  Some (dp_reward dp).

Definition m_dec (rc a : addr) (amt : N) : cmsg := MWasm rc (WReward (RDec a amt)) [].
Definition m_inc (rc a : addr) (amt : N) : cmsg := MWasm rc (WReward (RInc a amt)) [].
Definition m_receive (c sender : addr) (amt : N) (h : hook) : cmsg :=
  MWasm c (WHub (HReceive sender amt h)) [].
Definition m_check_slashing (hubaddr : addr) : cmsg := MWasm hubaddr (WHub HCheckSlashing) [].

Definition bsei_execute (w : world) (t : token) (sender : addr) (m : cw20_msg)
  : result (token * list cmsg) :=
  let now := e_now (w_env w) in
  match m with
  | CIncAllow s amt e =>
      do t' <- tok_inc_allow false t now sender s amt e; Some (t', [])
  | CDecAllow s amt e =>
      do t' <- tok_dec_allow false t now sender s amt e; Some (t', [])
  | CUpdMinter _ => None                      (* not a cw20-legacy message *)
  | _ =>
      do rc <- query_reward_contract w t;
      match m with
      | CTransfer to amt =>
          check negb (amt =? 0);
          do t' <- tok_move t sender to amt;
          Some (t', [m_dec rc sender amt; m_inc rc to amt])
      | CBurn amt =>
          check sender =? tk_hub t;
          check negb (amt =? 0);
          do t' <- tok_burn_from_acct t sender amt;
          Some (t', [m_dec rc sender amt])
      | CMint to amt =>
          do t' <- tok_mint t sender to amt;
          Some (t', [m_inc rc to amt])
      | CSend c amt h =>
          check negb (amt =? 0);
          do t' <- tok_move t sender c amt;
          Some (t', [m_dec rc sender amt; m_inc rc c amt; m_receive c sender amt h])
      | CTransferFrom o to amt =>
          do t1 <- deduct_allowance t now o sender amt;
          do t' <- tok_move t1 o to amt;
          Some (t', [m_dec rc o amt; m_inc rc to amt])
      | CBurnFrom o amt =>
          do t1 <- deduct_allowance t now o sender amt;
          do t' <- tok_burn_from_acct t1 o amt;
          Some (t', [m_dec rc o amt; m_check_slashing (tk_hub t)])
      | CSendFrom o c amt h =>
          do t1 <- deduct_allowance t now o sender amt;
          do t' <- tok_move t1 o c amt;
          Some (t', [m_dec rc o amt; m_inc rc c amt; m_receive c sender amt h])
      | _ => None
      end
  end.

(** ** stSei *)
Definition stsei_execute (w : world) (t : token) (sender : addr) (m : cw20_msg)
  : result (token * list cmsg) :=
  let now := e_now (w_env w) in
  match m with
  | CTransfer to amt =>
      check negb (amt =? 0);
      do t' <- tok_move t sender to amt; Some (t', [])
  | CBurn amt =>
      check sender =? tk_hub t;
      check negb (amt =? 0);
      do t' <- tok_burn_from_acct t sender amt;
      Some (t', [m_check_slashing (tk_hub t)])
  | CMint to amt =>
      do t' <- tok_mint t sender to amt; Some (t', [])
  | CSend c amt h =>
      check negb (amt =? 0);
      do t' <- tok_move t sender c amt;
      Some (t', [m_receive c sender amt h])
  | CIncAllow s amt e =>
      do t' <- tok_inc_allow true t now sender s amt e; Some (t', [])
  | CDecAllow s amt e =>
      do t' <- tok_dec_allow true t now sender s amt e; Some (t', [])
  | CTransferFrom o to amt =>
      do t1 <- deduct_allowance t now o sender amt;
      do t' <- tok_move t1 o to amt; Some (t', [])
  | CBurnFrom o amt =>
      do t1 <- deduct_allowance t now o sender amt;
      do t' <- tok_burn_from_acct t1 o amt;
      Some (t', [m_check_slashing (tk_hub t)])
  | CSendFrom o c amt h =>
      do t1 <- deduct_allowance t now o sender amt;
      do t' <- tok_move t1 o c amt;
      Some (t', [m_receive c sender amt h])
  | CUpdMinter nm =>
      match tk_minter t with
      | None => None
      | Some (mn, cap) =>
          check mn =? sender;
          Some (set_tk_minter t (match nm with Some a => Some (a, cap) | None => None end), [])
      end
  end.

(** queries used by other contracts and by the dump *)
Definition token_at (w : world) (a : addr) : option token :=
  if a =? A_bsei then w_bsei w else if a =? A_stsei then w_stsei w else None.

Definition query_total_supply (w : world) (a : addr) : result N :=
  do t <- token_at w a; Some (tk_supply t).
