(** * Reward: basset_sei_reward (contract.rs, handler.rs, global.rs, user.rs, math.rs).  No proofs. *)
From Krp Require Export Types Env.

Definition holder_of (r : reward) (a : addr) : holder :=
  match get eqbA (rw_holders r) a with Some h => h | None => mkHolder 0 0 0 end.

Definition set_rw_state (r : reward) gi total prev :=
  mkReward (rw_owner r) (rw_hub r) (rw_denom r) (rw_swap r) (rw_denoms r) gi total prev
           (rw_holders r) (rw_newowner r).
Definition set_rw_holder (r : reward) (a : addr) (h : holder) :=
  mkReward (rw_owner r) (rw_hub r) (rw_denom r) (rw_swap r) (rw_denoms r) (rw_gi r) (rw_total r)
           (rw_prev r) (set eqbA (rw_holders r) a h) (rw_newowner r).
Definition set_rw_cfg (r : reward) owner hubaddr d swap denoms newowner :=
  mkReward owner hubaddr d swap denoms (rw_gi r) (rw_total r) (rw_prev r) (rw_holders r) newowner.

(** [calculate_decimal_rewards global user balance] *)
Definition decimal_rewards (gi idx balance : N) : result N :=
  do db <- ratio balance 1;
  do diff <- dec_sub_256 gi idx;
  dec_mul_256 diff db.

(** hub Config query as seen from another contract: the hub must live at [a] *)
Definition hub_at (w : world) (a : addr) : result hub :=
  check a =? A_hub; w_hub w.

Definition query_dispatcher_addr (w : world) (hubaddr : addr) : result addr :=
  do h <- hub_at w hubaddr; hc_disp (h_cfg h).
Definition query_bsei_addr (w : world) (hubaddr : addr) : result addr :=
  do h <- hub_at w hubaddr; hc_bsei (h_cfg h).

Definition reward_instantiate (sender hubaddr : addr) (d : denom) (swap : addr) (denoms : list denom)
  : reward :=
  mkReward sender hubaddr d swap denoms 0 0 0 [] sender.

(** accrued reward of a holder in atomics: (gi - idx) * bal + pending *)
Definition accrued_atomics (r : reward) (a : addr) : result N :=
  let h := holder_of r a in
  do rw <- decimal_rewards (rw_gi r) (ho_idx h) (ho_bal h);
  dec_add_256 rw (ho_pend h).

Definition reward_execute (w : world) (r : reward) (self sender : addr) (m : reward_msg)
  : result (reward * list cmsg) :=
  match m with
  | RClaim recipient =>
      let h := holder_of r sender in
      do all <- accrued_atomics r sender;
      do rewards <- mulU 1 all;
      do whole <- ratio rewards 1;
      do decimals <- sub128 all whole;
      check negb (rewards =? 0);
      do prev <- sub128 (rw_prev r) rewards;
      let r1 := set_rw_state r (rw_gi r) (rw_total r) prev in
      let r2 := set_rw_holder r1 sender (mkHolder (ho_bal h) (rw_gi r) decimals) in
      let to := match recipient with Some a => a | None => sender end in
      Some (r2, [MBank to [(rw_denom r, rewards)]])
  | RConfig hubaddr d swap =>
      check sender =? rw_owner r;
      Some (set_rw_cfg r (rw_owner r)
                       (match hubaddr with Some a => a | None => rw_hub r end)
                       (match d with Some x => x | None => rw_denom r end)
                       (match swap with Some a => a | None => rw_swap r end)
                       (rw_denoms r) (rw_newowner r), [])
  | RSetOwner a =>
      check sender =? rw_owner r;
      Some (set_rw_cfg r (rw_owner r) (rw_hub r) (rw_denom r) (rw_swap r) (rw_denoms r) a, [])
  | RAccept =>
      check sender =? rw_newowner r;
      Some (set_rw_cfg r (rw_newowner r) (rw_hub r) (rw_denom r) (rw_swap r) (rw_denoms r)
                       (rw_newowner r), [])
  | RSwap =>
      do dp <- query_dispatcher_addr w (rw_hub r);
      check sender =? dp;
      let coins := all_balances (w_env w) self in
      let msgs := flat_map (fun c =>
                    if existsb (N.eqb (fst c)) (rw_denoms r) && negb (snd c =? 0)
                    then [MWasm (rw_swap r) (WSwap (SSwapDenom c (rw_denom r) (Some self))) [c]]
                    else []) coins in
      Some (r, msgs)
  | RUpdateIndex =>
      do dp <- query_dispatcher_addr w (rw_hub r);
      check sender =? dp;
      if rw_total r =? 0 then Some (r, [])
      else
        let balance := bal (w_env w) self (rw_denom r) in
        do claimed <- sub128 balance (rw_prev r);
        do q <- ratio claimed (rw_total r);
        do gi <- dec_add_256 (rw_gi r) q;
        Some (set_rw_state r gi (rw_total r) balance, [])
  | RInc a amt =>
      do tok <- query_bsei_addr w (rw_hub r);
      check sender =? tok;
      let h := holder_of r a in
      do rewards <- decimal_rewards (rw_gi r) (ho_idx h) (ho_bal h);
      do pend <- dec_add_256 rewards (ho_pend h);
      do b <- add128 (ho_bal h) amt;
      do tot <- add128 (rw_total r) amt;
      let r1 := set_rw_holder r a (mkHolder b (rw_gi r) pend) in
      Some (set_rw_state r1 (rw_gi r1) tot (rw_prev r1), [])
  | RDec a amt =>
      do tok <- query_bsei_addr w (rw_hub r);
      check tok =? sender;
      let h := holder_of r a in
      check amt <=? ho_bal h;
      do rewards <- decimal_rewards (rw_gi r) (ho_idx h) (ho_bal h);
      do pend <- dec_add_256 rewards (ho_pend h);
      do b <- sub128 (ho_bal h) amt;
      do tot <- sub128 (rw_total r) amt;
      let r1 := set_rw_holder r a (mkHolder b (rw_gi r) pend) in
      Some (set_rw_state r1 (rw_gi r1) tot (rw_prev r1), [])
  | RSwapDenom d add =>
      check rw_owner r =? sender;
      let ds := if add then rw_denoms r ++ [d] else filter (fun x => negb (x =? d)) (rw_denoms r) in
      Some (set_rw_cfg r (rw_owner r) (rw_hub r) (rw_denom r) (rw_swap r) ds (rw_newowner r), [])
  end.

(** queries for the dump *)
Definition query_accrued (r : reward) (a : addr) : result N :=
  do all <- accrued_atomics r a; mulU 1 all.
