(** * Exec: the CosmWasm dispatcher (depth-first execution of message trees, atomic transactions)
    and the operations of a history.  Trusted environment model (DESIGN.md section 7).  No proofs. *)
From Krp Require Export Types Env Registry Cw20 Reward Dispatcher Hub.

(** Route one wasm message to the contract living at [target]. *)
Definition call (w : world) (sender target : addr) (m : wasm_msg) (funds : list coin)
  : result (world * list cmsg) :=
  if target =? A_hub then
    match m with
    | WHub hm =>
        do h <- w_hub w; do r <- hub_execute w h target sender funds hm; Some (set_hub w (fst r), snd r)
    | _ => None
    end
  else if target =? A_reward then
    do rm <- match m with
             | WReward rm => Some rm
             | WHub (HUpdateGlobal _) => Some RUpdateIndex
                 (* the dispatcher sends the hub-shaped UpdateGlobalIndex; serde ignores the extra field *)
             | _ => None
             end;
    do x <- w_reward w; do r <- reward_execute w x target sender rm; Some (set_reward w (fst r), snd r)
  else if target =? A_disp then
    match m with
    | WDisp dm =>
        do x <- w_disp w; do r <- disp_execute w x target sender dm; Some (set_disp w (fst r), snd r)
    | _ => None
    end
  else if target =? A_reg then
    match m with
    | WReg gm => do x <- w_reg w; do r <- reg_execute w x sender gm; Some (set_reg w (fst r), snd r)
    | _ => None
    end
  else if target =? A_bsei then
    match m with
    | WCw20 cm => do x <- w_bsei w; do r <- bsei_execute w x sender cm; Some (set_bsei w (fst r), snd r)
    | _ => None
    end
  else if target =? A_stsei then
    match m with
    | WCw20 cm => do x <- w_stsei w; do r <- stsei_execute w x sender cm; Some (set_stsei w (fst r), snd r)
    | _ => None
    end
  else if target =? A_swap then
    match m with
    | WSwap sm => do e <- swap_execute (w_env w) sender sm; Some (set_env w e, [])
    | _ => None
    end
  else if target =? A_airdrop then Some (w, [])
  else None.

(** Execute one message emitted by (or, for the root, sent by) [sender]:
    the new world and the messages it emitted, tagged with their sender. *)
Definition step_msg (w : world) (sender : addr) (m : cmsg) : result (world * list (addr * cmsg)) :=
  let e := w_env w in
  match m with
  | MWasm to wm funds =>
      do e1 <- send_coins e sender to funds;
      do r <- call (set_env w e1) sender to wm funds;
      Some (fst r, map (fun x => (to, x)) (snd r))
  | MBank to coins => do e1 <- bank_send e sender to coins; Some (set_env w e1, [])
  | MDelegate v c => do e1 <- do_delegate e sender v c; Some (set_env w e1, [])
  | MUndelegate v c => do e1 <- do_undelegate e sender v c; Some (set_env w e1, [])
  | MRedelegate s d c => do e1 <- do_redelegate e sender s d c; Some (set_env w e1, [])
  | MWithdrawReward v => do e1 <- do_withdraw_reward e sender v; Some (set_env w e1, [])
  | MSetWithdrawAddr a => Some (set_env w (do_set_withdraw_addr e sender a), [])
  end.

(** Depth-first execution with an explicit work stack; [tr] accumulates the executed messages. *)
Fixpoint run (fuel : nat) (w : world) (stack : list (addr * cmsg)) (tr : list (addr * cmsg))
  : result (world * list (addr * cmsg)) :=
  match stack with
  | [] => Some (w, tr)
  | (s, m) :: rest =>
      match fuel with
      | O => None                                  (* out of fuel *)
      | S f =>
          do r <- step_msg w s m;
          run f (fst r) (snd r ++ rest) (tr ++ [(s, m)])
      end
  end.

Definition tx_fuel : nat := 400.

(** ** Operations of a history *)
Inductive op :=
| OReset (ut : N)
| OAdvance (dt : N)
| OSlash (v : val) (num den : N) (unb : bool)
| OAccrue (v : val) (d : denom) (a : N)
| OGift (a : addr) (d : denom) (x : N)
| OSetPrice (p : N)
| OSwapMode (m : swapmode)
| OOracleMode (m : oraclemode)
| OCanRedel (v : val) (b : bool)
| OLegacyWait (a : addr) (batch amt : N)
| OInstHub (sender : addr) (epoch unbonding pegfee thr : N) (updater : addr) (underlying rdenom : denom)
| OInstReward (sender hubaddr : addr) (d : denom) (swap : addr) (denoms : list denom)
| OInstDisp (sender hubaddr rewardaddr : addr) (std bd : denom) (keeper : addr) (rate : N)
            (swap oracle : addr) (denoms : list denom)
| OInstReg (sender hubaddr : addr) (vals : list val)
| OInstBsei (sender hubaddr : addr) (rows : list (addr * N))
| OInstStsei (sender hubaddr : addr) (mk : N) (rows : list (addr * N))
| OTx (sender target : addr) (m : wasm_msg) (funds : list coin).

Fixpoint oldwait_put (m : fmap (addr * N) N) (k : addr * N) (v : N) : fmap (addr * N) N :=
  match m with
  | [] => [(k, v)]
  | (k', v') :: r =>
      if eqbAN k k' then (k, v) :: r
      else if (fst k <? fst k') || ((fst k =? fst k') && (snd k <? snd k')) then (k, v) :: m
      else (k', v') :: oldwait_put r k v
  end.

Definition set_w_hub (w : world) (h : option hub) :=
  mkWorld h (w_reward w) (w_disp w) (w_reg w) (w_bsei w) (w_stsei w) (w_env w).
Definition set_w_reward (w : world) (x : option reward) :=
  mkWorld (w_hub w) x (w_disp w) (w_reg w) (w_bsei w) (w_stsei w) (w_env w).
Definition set_w_disp (w : world) (x : option disp) :=
  mkWorld (w_hub w) (w_reward w) x (w_reg w) (w_bsei w) (w_stsei w) (w_env w).
Definition set_w_reg (w : world) (x : option registry) :=
  mkWorld (w_hub w) (w_reward w) (w_disp w) x (w_bsei w) (w_stsei w) (w_env w).
Definition set_w_bsei (w : world) (x : option token) :=
  mkWorld (w_hub w) (w_reward w) (w_disp w) (w_reg w) x (w_stsei w) (w_env w).
Definition set_w_stsei (w : world) (x : option token) :=
  mkWorld (w_hub w) (w_reward w) (w_disp w) (w_reg w) (w_bsei w) x (w_env w).

Definition outcome := (bool * list (addr * cmsg))%type.

Definition ok_if {A} (r : result A) : bool := is_some r.

Definition step (w : world) (o : op) : world * outcome :=
  let e := w_env w in
  match o with
  | OReset ut => (empty_world ut, (true, []))
  | OAdvance dt =>
      (* cosmwasm Timestamp holds u64 nanoseconds: block times above MAX_NOW cannot be represented *)
      if e_now e + dt <=? 18446744073 then (set_env w (ev_advance e dt), (true, [])) else (w, (false, []))
  | OSlash v num den unb =>
      match ev_slash e v num den unb with
      | Some e' => (set_env w e', (true, []))
      | None => (w, (false, []))
      end
  | OAccrue v d a =>
      match ev_accrue e A_hub v d a with
      | Some e' => (set_env w e', (true, []))
      | None => (w, (false, []))
      end
  | OGift a d x => (set_env w (credit e a d x), (true, []))
  | OSetPrice p =>
      if p =? 0 then (w, (false, [])) else (set_env w (set_price e p), (true, []))
  | OSwapMode m => (set_env w (set_swapmode e m), (true, []))
  | OOracleMode m => (set_env w (set_oraclemode e m), (true, []))
  | OCanRedel v b =>
      let l := filter (fun x => negb (x =? v)) (e_noredel e) in
      (set_env w (set_noredel e (if b then l else v :: l)), (true, []))
  | OLegacyWait a batch amt =>
      match w_hub w with
      | Some h => (set_hub w (set_h_oldwait h (oldwait_put (h_oldwait h) (a, batch) amt)), (true, []))
      | None => (w, (false, []))
      end
  | OInstHub sender epoch unbonding pegfee thr updater underlying rdenom =>
      let r := hub_instantiate sender (e_now e) epoch unbonding pegfee thr updater underlying rdenom in
      (set_w_hub w r, (ok_if r, []))
  | OInstReward sender hubaddr d swap denoms =>
      (set_w_reward w (Some (reward_instantiate sender hubaddr d swap denoms)), (true, []))
  | OInstDisp sender hubaddr rewardaddr std bd keeper rate swap oracle denoms =>
      let r := disp_instantiate sender hubaddr rewardaddr std bd keeper rate swap oracle denoms in
      (set_w_disp w r, (ok_if r, []))
  | OInstReg sender hubaddr vals =>
      (set_w_reg w (Some (reg_instantiate sender hubaddr vals)), (true, []))
  | OInstBsei sender hubaddr rows =>
      let r := tok_instantiate false hubaddr 0 rows in
      (set_w_bsei w r, (ok_if r, []))
  | OInstStsei sender hubaddr mk rows =>
      let r := tok_instantiate true hubaddr mk rows in
      (set_w_stsei w r, (ok_if r, []))
  | OTx sender target m funds =>
      match run tx_fuel w [(sender, MWasm target m funds)] [] with
      | Some (w', tr) => (w', (true, tr))
      | None => (w, (false, []))
      end
  end.

Definition run_ops (ops : list op) (w : world) : world := fold_left (fun w o => fst (step w o)) ops w.
